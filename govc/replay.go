package main

// Counterexample extraction and replay on the real code (go test -overlay; nothing is written to /repo).

import (
	"context"
	"encoding/json"
	"fmt"
	"go/types"
	"math/big"
	"os"
	"os/exec"
	"path/filepath"
	"strings"
	"time"
)

type ReplayRecord struct {
	Property     string            `json:"property"`
	Obligation   string            `json:"obligation"`
	Kind         string            `json:"kind"`
	Function     string            `json:"function"`
	Clause       string            `json:"clause"`
	Pos          string            `json:"pos"`
	Status       string            `json:"solver_status"`
	Solver       string            `json:"solver"`
	SolverOutput string            `json:"solver_output"`
	Model        map[string]string `json:"model,omitempty"`
	GoTest       string            `json:"go_test,omitempty"`
	ReplayOutput string            `json:"replay_output,omitempty"`
	Verdict      string            `json:"verdict"` // fails-on-real-code | no-failing-input-found
	Reason       string            `json:"reason,omitempty"`
	SmtFile      string            `json:"smt_file,omitempty"`
}

func parseSMTInt(v string, signed bool, bits int) (*big.Int, bool) {
	v = strings.TrimSpace(v)
	var n *big.Int
	switch {
	case strings.HasPrefix(v, "#x"):
		n, _ = new(big.Int).SetString(v[2:], 16)
	case strings.HasPrefix(v, "#b"):
		n, _ = new(big.Int).SetString(v[2:], 2)
	case strings.HasPrefix(v, "(_ bv"):
		f := strings.Fields(strings.Trim(v, "()"))
		if len(f) >= 2 {
			n, _ = new(big.Int).SetString(strings.TrimPrefix(f[1], "bv"), 10)
		}
	case strings.HasPrefix(v, "(-"):
		inner := strings.TrimSpace(strings.TrimSuffix(strings.TrimPrefix(v, "(-"), ")"))
		m, ok := new(big.Int).SetString(inner, 10)
		if !ok {
			return nil, false
		}
		return m.Neg(m), true
	default:
		m, ok := new(big.Int).SetString(v, 10)
		return m, ok
	}
	if n == nil {
		return nil, false
	}
	if signed && bits > 0 && n.Bit(bits-1) == 1 {
		n.Sub(n, new(big.Int).Lsh(big.NewInt(1), uint(bits)))
	}
	return n, true
}

type replayParam struct {
	name  string
	gt    types.Type
	kind  string // int | bool | slice | string
	val   Val
	ival  *big.Int
	bval  bool
	ref   *big.Int
	off   int64
	ln    int64
	cp    int64
	elems []*big.Int
	str   []byte
}

func goTypeString(t types.Type, pkg *types.Package) (string, bool) {
	s := types.TypeString(t, types.RelativeTo(pkg))
	if strings.Contains(s, ".") || strings.Contains(s, "/") {
		return s, false
	}
	return s, true
}

const maxReplayLen = 1 << 16

// replayOblig extracts a model for a failed obligation and runs the real function on it.
func replayOblig(o *Oblig, prop string, workdir string) *ReplayRecord {
	rec := &ReplayRecord{Property: prop, Obligation: o.Name, Kind: o.Kind, Function: o.Fn, Clause: o.Clause, Pos: o.Pos,
		Status: o.Status, Solver: o.Solver, SolverOutput: truncate(o.Output, 4000), Verdict: "no-failing-input-found", SmtFile: o.SmtFile}
	if o.Kind == "translation" {
		rec.Reason = "the function under contract can no longer be translated: " + o.Output
		return rec
	}
	if o.gen == nil {
		rec.Reason = "frame obligation decided syntactically on the SSA (no solver model): " + o.Output
		// a per-function template may demonstrate the write on the real code (e.g. under the race detector)
		if tmpl, err := os.ReadFile(filepath.Join(verifRoot, "replay", sanitize(o.Fn)+".go.tmpl")); err == nil && o.PkgPath != "" {
			src := strings.ReplaceAll(string(tmpl), "{{clause}}", o.Name)
			rec.GoTest = src
			out, _ := runOverlayTest(o.PkgPath, src, workdir, sanitize(o.Name))
			rec.ReplayOutput = truncate(out, 6000)
			if strings.Contains(out, "REPLAY-FAIL") || strings.Contains(out, "WARNING: DATA RACE") {
				rec.Verdict = "fails-on-real-code"
				rec.Reason += "; the template replay shows it on the real code"
			}
		}
		return rec
	}
	if o.Status != "failed" {
		rec.Reason = "the solver gave no model (" + o.Status + ")"
		return rec
	}
	g := o.gen
	fn := g.fn
	if fn == nil {
		rec.Reason = "lemma over spec functions: no code to replay"
		return rec
	}
	if tmpl, err := os.ReadFile(filepath.Join(verifRoot, "replay", sanitize(o.Fn)+".go.tmpl")); err == nil {
		return replayTemplate(o, rec, string(tmpl), workdir)
	}
	if fn.Signature.Recv() != nil || len(fn.FreeVars) > 0 {
		rec.Reason = "generic replay supports plain functions only (method or closure needs a receiver/environment)"
		g.modelOnly(o, rec, workdir)
		return rec
	}
	var ps []*replayParam
	for _, p := range fn.Params {
		rp := &replayParam{name: p.Name(), gt: p.Type(), val: g.vals[p]}
		switch u := p.Type().Underlying().(type) {
		case *types.Basic:
			switch {
			case u.Info()&types.IsInteger != 0:
				rp.kind = "int"
			case u.Info()&types.IsBoolean != 0:
				rp.kind = "bool"
			case u.Info()&types.IsString != 0:
				rp.kind = "string"
			}
		case *types.Slice:
			if _, _, ok := intInfo(u.Elem()); ok {
				rp.kind = "slice"
			}
		}
		if rp.kind == "" {
			rec.Reason = fmt.Sprintf("parameter %s of type %s cannot be constructed by the generic replay", p.Name(), p.Type())
			g.modelOnly(o, rec, workdir)
			return rec
		}
		if _, ok := goTypeString(p.Type(), fn.Pkg.Pkg); !ok {
			rec.Reason = "parameter type from another package"
			return rec
		}
		ps = append(ps, rp)
	}
	script := g.script(o)
	// prefer small models
	var small []string
	for _, rp := range ps {
		switch rp.kind {
		case "slice":
			small = append(small, g.sle(scap(rp.val.T), g.ilit64(64)), g.sle(soff(rp.val.T), g.ilit64(16)))
		case "string":
			small = append(small, g.sle("(slen "+rp.val.T+")", g.ilit64(64)))
		}
	}
	var terms []string
	for _, rp := range ps {
		switch rp.kind {
		case "int", "bool":
			terms = append(terms, rp.val.T)
		case "slice":
			terms = append(terms, sref(rp.val.T), soff(rp.val.T), slen(rp.val.T), scap(rp.val.T))
		case "string":
			terms = append(terms, "(slen "+rp.val.T+")")
		}
	}
	wf := filepath.Join(workdir, sanitize(o.Name)+".model.smt2")
	base := script
	var m map[string]string
	if len(small) > 0 {
		s2 := strings.Replace(script, "(check-sat)\n", "(assert (and "+strings.Join(small, " ")+"))\n(check-sat)\n", 1)
		m, _ = getValues(s2, terms, wf, 20)
		if m != nil {
			base = s2
		}
	}
	if m == nil {
		m, _ = getValues(script, terms, wf, 20)
	}
	if m == nil {
		rec.Reason = "model extraction failed"
		return rec
	}
	rec.Model = map[string]string{}
	var fix []string
	for _, rp := range ps {
		switch rp.kind {
		case "int":
			bits, signed, _ := intInfo(rp.gt)
			v, ok := parseSMTInt(m[rp.val.T], signed, bits)
			if !ok {
				rec.Reason = "cannot parse model value " + m[rp.val.T]
				return rec
			}
			rp.ival = v
			rec.Model[rp.name] = v.String()
			fix = append(fix, fmt.Sprintf("(= %s %s)", rp.val.T, g.ilit(v, bits)))
		case "bool":
			rp.bval = strings.TrimSpace(m[rp.val.T]) == "true"
			rec.Model[rp.name] = fmt.Sprint(rp.bval)
			fix = append(fix, fmt.Sprintf("(= %s %v)", rp.val.T, rp.bval))
		case "slice":
			ref, ok1 := parseSMTInt(m[sref(rp.val.T)], false, 0)
			off, ok2 := parseSMTInt(m[soff(rp.val.T)], true, 64)
			ln, ok3 := parseSMTInt(m[slen(rp.val.T)], true, 64)
			cp, ok4 := parseSMTInt(m[scap(rp.val.T)], true, 64)
			if !(ok1 && ok2 && ok3 && ok4) {
				rec.Reason = "cannot parse slice header in model"
				return rec
			}
			if cp.Cmp(big.NewInt(maxReplayLen)) > 0 || off.Cmp(big.NewInt(maxReplayLen)) > 0 {
				rec.Model[rp.name] = fmt.Sprintf("slice len=%s cap=%s (too large to allocate)", ln, cp)
				rec.Reason = "the counterexample needs an allocation too large to replay"
				return rec
			}
			rp.ref, rp.off, rp.ln, rp.cp = ref, off.Int64(), ln.Int64(), cp.Int64()
			fix = append(fix, fmt.Sprintf("(= %s %s)", sref(rp.val.T), ref.String()), fmt.Sprintf("(= %s %s)", soff(rp.val.T), g.ilit(off, 64)),
				fmt.Sprintf("(= %s %s)", slen(rp.val.T), g.ilit(ln, 64)), fmt.Sprintf("(= %s %s)", scap(rp.val.T), g.ilit(cp, 64)))
		case "string":
			ln, ok := parseSMTInt(m["(slen "+rp.val.T+")"], true, 64)
			if !ok || ln.Cmp(big.NewInt(maxReplayLen)) > 0 {
				rec.Reason = "string too large to replay"
				return rec
			}
			rp.ln = ln.Int64()
			fix = append(fix, fmt.Sprintf("(= (slen %s) %s)", rp.val.T, g.ilit(ln, 64)))
		}
	}
	// phase 2: contents
	var terms2 []string
	type back struct {
		ref  string
		size int64
		elem types.Type
	}
	backs := map[string]*back{}
	for _, rp := range ps {
		switch rp.kind {
		case "slice":
			el := rp.gt.Underlying().(*types.Slice).Elem()
			key := typeKey(el) + "@" + rp.ref.String()
			b := backs[key]
			if b == nil {
				b = &back{ref: rp.ref.String(), elem: el}
				backs[key] = b
			}
			if rp.off+rp.cp > b.size {
				b.size = rp.off + rp.cp
			}
		}
	}
	backElems := map[string][]*big.Int{}
	for key, b := range backs {
		if b.ref == "0" {
			continue
		}
		fam, sort := g.elemFam(b.elem)
		h := g.heapGet(g.init, fam, sort)
		for j := int64(0); j < b.size; j++ {
			terms2 = append(terms2, fmt.Sprintf("(select (select %s %s) %s)", h, b.ref, g.ilit64(j)))
		}
		_ = key
	}
	for _, rp := range ps {
		if rp.kind == "string" {
			for j := int64(0); j < rp.ln; j++ {
				terms2 = append(terms2, fmt.Sprintf("(sat %s %s)", rp.val.T, g.ilit64(j)))
			}
		}
	}
	if len(terms2) > 0 {
		s3 := strings.Replace(base, "(check-sat)\n", "(assert (and "+strings.Join(fix, " ")+"))\n(check-sat)\n", 1)
		m2, _ := getValues(s3, terms2, wf, 30)
		if m2 == nil {
			rec.Reason = "model extraction (contents) failed"
			return rec
		}
		for key, b := range backs {
			if b.ref == "0" {
				continue
			}
			fam, sort := g.elemFam(b.elem)
			h := g.heapGet(g.init, fam, sort)
			bits, signed, _ := intInfo(b.elem)
			for j := int64(0); j < b.size; j++ {
				v, ok := parseSMTInt(m2[fmt.Sprintf("(select (select %s %s) %s)", h, b.ref, g.ilit64(j))], signed, bits)
				if !ok {
					v = big.NewInt(0)
				}
				backElems[key] = append(backElems[key], v)
			}
		}
		for _, rp := range ps {
			if rp.kind == "string" {
				for j := int64(0); j < rp.ln; j++ {
					v, ok := parseSMTInt(m2[fmt.Sprintf("(sat %s %s)", rp.val.T, g.ilit64(j))], false, 8)
					if !ok {
						v = big.NewInt(0)
					}
					rp.str = append(rp.str, byte(v.Int64()))
				}
				rec.Model[rp.name] = fmt.Sprintf("%q", string(rp.str))
			}
		}
	}
	// build the Go test
	var sb strings.Builder
	pkg := fn.Pkg.Pkg
	fmt.Fprintf(&sb, "//go:build go1.18\n\npackage %s\n\nimport (\n\t\"fmt\"\n\t\"testing\"\n)\n\n", pkg.Name())
	gg := &goGen{pcs: []*PkgContracts{g.pc}, pures: map[string]bool{}, oldVars: map[string]bool{}}
	for _, pc := range g.prog.sortedContracts() {
		if pc != g.pc {
			gg.pcs = append(gg.pcs, pc)
		}
	}
	clauseGo := ""
	var clauseExpr Expr
	if o.Kind == "post" {
		for _, c := range g.fc.Ensures {
			if c.Src == o.Clause {
				clauseExpr = c.E
			}
		}
		if clauseExpr != nil {
			clauseGo = gg.expr(clauseExpr)
			if gg.err != nil {
				clauseGo = ""
			}
		}
	}
	var body strings.Builder
	bi := 0
	backName := map[string]string{}
	for key, b := range backs {
		if b.ref == "0" {
			continue
		}
		name := fmt.Sprintf("backing%d", bi)
		bi++
		backName[key] = name
		ts, _ := goTypeString(b.elem, pkg)
		var es []string
		for _, v := range backElems[key] {
			es = append(es, v.String())
		}
		fmt.Fprintf(&body, "\t%s := []%s{%s}\n", name, ts, strings.Join(es, ", "))
	}
	var argNames []string
	for _, rp := range ps {
		ts, _ := goTypeString(rp.gt, pkg)
		switch rp.kind {
		case "int":
			fmt.Fprintf(&body, "\tvar %s %s = %s\n", rp.name, ts, rp.ival.String())
		case "bool":
			fmt.Fprintf(&body, "\tvar %s %s = %v\n", rp.name, ts, rp.bval)
		case "string":
			fmt.Fprintf(&body, "\tvar %s %s = %s(%q)\n", rp.name, ts, ts, string(rp.str))
		case "slice":
			el := rp.gt.Underlying().(*types.Slice).Elem()
			key := typeKey(el) + "@" + rp.ref.String()
			if rp.ref.Sign() == 0 {
				fmt.Fprintf(&body, "\tvar %s %s = nil\n", rp.name, ts)
				rec.Model[rp.name] = "nil"
			} else {
				fmt.Fprintf(&body, "\tvar %s %s = %s[%d:%d:%d]\n", rp.name, ts, backName[key], rp.off, rp.off+rp.ln, rp.off+rp.cp)
				var es []string
				for j := rp.off; j < rp.off+rp.ln && j < int64(len(backElems[key])); j++ {
					es = append(es, backElems[key][j].String())
				}
				rec.Model[rp.name] = fmt.Sprintf("len=%d cap=%d [%s]", rp.ln, rp.cp, strings.Join(es, " "))
			}
		}
		fmt.Fprintf(&body, "\t_ = %s\n", rp.name)
		argNames = append(argNames, rp.name)
	}
	// old() snapshots
	for name := range gg.oldVars {
		for _, rp := range ps {
			if rp.name == name {
				if rp.kind == "slice" {
					ts, _ := goTypeString(rp.gt, pkg)
					fmt.Fprintf(&body, "\told_%s := append(%s(nil), %s...)\n\t_ = old_%s\n", name, ts, name, name)
				} else {
					fmt.Fprintf(&body, "\told_%s := %s\n\t_ = old_%s\n", name, name, name)
				}
			}
		}
	}
	res := fn.Signature.Results()
	var rdecl, rnames, rfmt []string
	for i := 0; i < res.Len(); i++ {
		ts, ok := goTypeString(res.At(i).Type(), pkg)
		if !ok {
			rec.Reason = "result type from another package"
			return rec
		}
		rdecl = append(rdecl, fmt.Sprintf("ret%d %s", i, ts))
		rnames = append(rnames, fmt.Sprintf("ret%d", i))
		rfmt = append(rfmt, "%v")
	}
	if res.Len() > 0 {
		fmt.Fprintf(&body, "\tvar %s\n", strings.Join(rdecl, "\n\tvar "))
	}
	fmt.Fprintf(&body, "\tvar panicked interface{}\n\tfunc() {\n\t\tdefer func() { panicked = recover() }()\n")
	call := fmt.Sprintf("%s(%s)", fn.Name(), strings.Join(argNames, ", "))
	if fn.Signature.Variadic() {
		call = fmt.Sprintf("%s(%s...)", fn.Name(), strings.Join(argNames, ", "))
	}
	if res.Len() > 0 {
		fmt.Fprintf(&body, "\t\t%s = %s\n", strings.Join(rnames, ", "), call)
	} else {
		fmt.Fprintf(&body, "\t\t%s\n", call)
	}
	fmt.Fprintf(&body, "\t}()\n\tif panicked != nil {\n\t\tfmt.Printf(\"REPLAY-PANIC: %%v\\n\", panicked)\n\t\treturn\n\t}\n")
	if res.Len() > 0 {
		fmt.Fprintf(&body, "\tfmt.Printf(\"REPLAY-RESULT: %s\\n\", %s)\n", strings.Join(rfmt, " "), strings.Join(rnames, ", "))
		// named results usable in clauses
		for i := 0; i < res.Len(); i++ {
			if n := res.At(i).Name(); n != "" && n != "_" {
				fmt.Fprintf(&body, "\t%s := ret%d\n\t_ = %s\n", n, i, n)
			}
		}
	}
	if clauseGo != "" {
		fmt.Fprintf(&body, "\tholds, evalPanic := func() (h bool, p interface{}) {\n\t\tdefer func() { p = recover() }()\n\t\th = %s\n\t\treturn\n\t}()\n", clauseGo)
		fmt.Fprintf(&body, "\tif evalPanic != nil {\n\t\tfmt.Printf(\"REPLAY-CLAUSE: evaluation panicked: %%v\\n\", evalPanic)\n\t} else {\n\t\tfmt.Printf(\"REPLAY-CLAUSE: %%v\\n\", holds)\n\t}\n")
	}
	sb.WriteString(gg.pureDecls())
	sb.WriteString(goSpecHelpers)
	fmt.Fprintf(&sb, "\nfunc TestVerifReplay(t *testing.T) {\n%s}\n", body.String())
	rec.GoTest = sb.String()
	// run
	out, err := runOverlayTest(fn.Pkg.Pkg.Path(), rec.GoTest, workdir, sanitize(o.Name))
	rec.ReplayOutput = truncate(out, 6000)
	if err != nil && !strings.Contains(out, "REPLAY-") {
		rec.Reason = "replay test did not run: " + err.Error()
		return rec
	}
	switch {
	case strings.Contains(out, "REPLAY-PANIC:"):
		rec.Verdict = "fails-on-real-code"
		rec.Reason = "the real function panics on the counterexample"
	case strings.Contains(out, "REPLAY-CLAUSE: false"):
		rec.Verdict = "fails-on-real-code"
		rec.Reason = "the clause evaluates to false on the results of the real function"
	case strings.Contains(out, "REPLAY-CLAUSE: true"):
		rec.Reason = "the real function satisfies the clause on this model (model may rely on abstracted callees)"
	case strings.Contains(out, "REPLAY-CLAUSE: evaluation panicked"):
		rec.Reason = "clause evaluation panicked on the real results (partial spec function)"
	default:
		if o.Kind != "post" {
			rec.Reason = "the real function does not panic on this model and the " + o.Kind + " clause cannot be evaluated outside the verifier"
		} else {
			rec.Reason = "clause could not be translated to Go: " + fmt.Sprint(gg.err)
		}
	}
	return rec
}

// replayTemplate: per-kernel replay. The template is a Go test (package of the function) with {{param}}
// placeholders for the scalar parameters of the counterexample and {{clause}} for the obligation's label;
// it prints REPLAY-FAIL when the real code violates the clause on those inputs, REPLAY-OK otherwise.
func replayTemplate(o *Oblig, rec *ReplayRecord, tmpl, workdir string) *ReplayRecord {
	g := o.gen
	g.modelOnly(o, rec, workdir)
	if rec.Model == nil {
		rec.Reason = "model extraction failed"
		return rec
	}
	src := tmpl
	for name, v := range rec.Model {
		val := v
		if p, ok := g.params[name]; ok && p.GT != nil {
			if bits, signed, isInt := intInfo(p.GT); isInt {
				if n, ok := parseSMTInt(v, signed, bits); ok {
					val = n.String()
					rec.Model[name] = val
				}
			}
		}
		src = strings.ReplaceAll(src, "{{"+name+"}}", val)
	}
	label := o.Name
	if i := strings.LastIndex(label, "/"); i >= 0 {
		label = label[i+1:]
	}
	src = strings.ReplaceAll(src, "{{clause}}", label)
	if strings.Contains(src, "{{") {
		rec.Reason = "replay template has placeholders the model does not bind"
		return rec
	}
	rec.GoTest = src
	out, err := runOverlayTest(g.fnTypesPkg().Path(), src, workdir, sanitize(o.Name))
	rec.ReplayOutput = truncate(out, 6000)
	switch {
	case strings.Contains(out, "REPLAY-FAIL"):
		rec.Verdict = "fails-on-real-code"
		rec.Reason = "the real code violates the clause on the counterexample (template replay)"
	case strings.Contains(out, "REPLAY-OK"):
		rec.Reason = "the real code satisfies the clause on this model"
	default:
		rec.Reason = "replay template did not run"
		if err != nil {
			rec.Reason += ": " + err.Error()
		}
	}
	return rec
}

// modelOnly stores scalar parameter values of the model without running anything.
func (g *FnGen) modelOnly(o *Oblig, rec *ReplayRecord, workdir string) {
	var terms []string
	names := map[string]string{}
	for _, n := range g.paramOrder {
		v := g.params[n]
		switch v.S {
		case "Bool", "Int":
			terms = append(terms, v.T)
			names[v.T] = n
		case "Slice":
			terms = append(terms, slen(v.T))
			names[slen(v.T)] = "len(" + n + ")"
		default:
			if strings.HasPrefix(v.S, "(_ BitVec") {
				terms = append(terms, v.T)
				names[v.T] = n
			}
		}
	}
	if len(terms) == 0 {
		return
	}
	m, _ := getValues(g.script(o), terms, filepath.Join(workdir, sanitize(o.Name)+".model.smt2"), 20)
	if m == nil {
		return
	}
	rec.Model = map[string]string{}
	for t, v := range m {
		rec.Model[names[t]] = v
	}
}

func truncate(s string, n int) string {
	if len(s) <= n {
		return s
	}
	return s[:n] + "...[truncated]"
}

func runOverlayTest(pkgPath, src, workdir, tag string) (string, error) {
	rel := strings.TrimPrefix(strings.TrimPrefix(pkgPath, modulePath), "/")
	dir := filepath.Join(repoRoot, rel)
	abs, _ := filepath.Abs(workdir)
	os.MkdirAll(abs, 0o755)
	testFile := filepath.Join(abs, tag+"_replay_test.go")
	if err := os.WriteFile(testFile, []byte(src), 0o644); err != nil {
		return "", err
	}
	ov := map[string]map[string]string{"Replace": {filepath.Join(dir, "zz_verif_replay_test.go"): testFile}}
	ovb, _ := json.Marshal(ov)
	ovFile := filepath.Join(abs, tag+"_overlay.json")
	os.WriteFile(ovFile, ovb, 0o644)
	ctx, cancel := context.WithTimeout(context.Background(), 240*time.Second)
	defer cancel()
	argv := []string{"test", "-overlay", ovFile, "-vet=off", "-count=1", "-timeout", "60s", "-run", "^TestVerifReplay$", "-v"}
	if strings.Contains(src, "//verif:race") {
		argv = append(argv, "-race")
	}
	argv = append(argv, ".")
	cmd := exec.CommandContext(ctx, "go", argv...)
	cmd.Dir = dir
	cmd.Env = append(os.Environ(), "GOFLAGS=-mod=mod", "GOPROXY=off", "GOSUMDB=off", "GOTOOLCHAIN=local")
	out, err := cmd.CombinedOutput()
	return string(out), err
}
