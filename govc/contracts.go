package main

// Contract files: /repo/<pkg>/zz_verif_contracts.go, build tag verif, comment-only.
// Grammar: DESIGN.md Appendix B.

import (
	"fmt"
	"os"
	"path/filepath"
	"regexp"
	"strconv"
	"strings"
)

type Clause struct {
	Label string
	Uses    []string // hypotheses selection (labels of loop invariants), see mkClause
	HasUses bool
	E     Expr
	Src   string
	Line  int
}

type LoopSpec struct {
	Key        string // ordinal as string, e.g. "0"
	Vars       []string
	Invariants []Clause
	Unroll     int
	Decreases  *Clause
	Assigns    []Clause // pre-existing objects the loop may write (everything else allocated before the function is preserved)
	LocalOnly  bool     // `loop N assigns \local`: besides the named objects the loop writes only objects allocated INSIDE the loop, so everything allocated before the loop is preserved
}

type CallAssert struct {
	Callee string
	N      int
	HasN   bool
	Except []string
	C      Clause
}

type GhostUpdate struct {
	AtEntry bool
	Callee  string
	N       int
	When    Expr
	Names   []string
	Vals    []Expr
	Src     string
}

type FuncContract struct {
	PkgPath    string
	Name       string
	Kind       string // func | trusted | iface
	Mode       string // "" | bv | int
	Requires   []Clause
	Ensures    []Clause
	HasAssigns bool
	Assigns    []Clause // empty with HasAssigns = \nothing
	MayPanic   []Clause
	Loops      []*LoopSpec
	Inline     bool
	Pure       bool // trusted: no heap effect at all (same as assigns \nothing)
	NoOverflow bool // int mode: do not emit overflow obligations (wrap-around arithmetic is intended) -- listed
	CallAsserts []CallAssert
	GhostUpds  []GhostUpdate
	Params     []string // optional explicit parameter names for trusted/iface decls
	File       string
	Line       int
	Axioms     []Clause // function-local extra assumptions (listed in evidence as assumed)
	Known      map[string]string
	Hints      []Clause // proved at every return before the postconditions, then available to them (intermediate assertions)
	InstName   string // `instantiate NAME in lo..hi`: the function is verified once per value, NAME is that integer constant
	InstLo     int
	InstHi     int
}

type Param struct{ Name, Type string }

type PureFn struct {
	Name   string
	Params []Param
	Ret    string
	Body   Expr // nil => uninterpreted
	Src    string
}

type PropDecl struct {
	ID    string
	Funcs []string
	Lemmas []string
}

type Lemma struct {
	Name string
	E    Expr
	Src  string
	Mode string
	Line int
	Use  bool
	For  []string // restrict an axiom to these functions
}

type GhostVar struct{ Name, Type string }

type Immutable struct {
	Prop  string
	Types []string
	After []string
	Pkgs  []string // packages (relative to the module) whose functions are scanned
	Line  int
}

type PkgContracts struct {
	PkgPath string
	Dir     string
	File    string
	Funcs   map[string]*FuncContract // by Name (func and iface)
	Trusted map[string]*FuncContract // by full name
	Pures   map[string]*PureFn
	Axioms  []Lemma
	Lemmas  []Lemma
	Ghosts  []GhostVar
	ConstGlobals []string
	Immut   []Immutable
	Props   []PropDecl
	Order   []string
}

var clauseKW = map[string]bool{"mode": true, "requires": true, "ensures": true, "assigns": true, "may-panic": true,
	"loop": true, "ghost-update": true, "assert": true, "assert-all-calls": true, "instantiate": true, "inline": true, "pure-call": true,
	"params": true, "assume": true, "wraps": true, "hint": true}
var declKW = map[string]bool{"func": true, "iface": true, "trusted": true, "pure": true, "axiom": true, "lemma": true,
	"ghost": true, "immutable": true, "property": true, "constglobal": true}

type rawItem struct {
	text string
	line int
}

func stripComment(s string) string {
	// trailing comment introduced by " -- " or " // " outside string literals
	inStr := false
	for i := 0; i < len(s); i++ {
		if s[i] == '"' {
			inStr = !inStr
		}
		if inStr {
			continue
		}
		if i+1 < len(s) && ((s[i] == '/' && s[i+1] == '/') || (s[i] == '-' && s[i+1] == '-' && (i == 0 || s[i-1] == ' ') && (i+2 >= len(s) || s[i+2] == ' '))) {
			return s[:i]
		}
	}
	return s
}

func firstWord(s string) (string, string) {
	s = strings.TrimSpace(s)
	i := strings.IndexAny(s, " \t")
	if i < 0 {
		return s, ""
	}
	return s[:i], strings.TrimSpace(s[i+1:])
}

func ParseContractFile(path, pkgPath string) (*PkgContracts, error) {
	b, err := os.ReadFile(path)
	if err != nil {
		return nil, err
	}
	pc := &PkgContracts{PkgPath: pkgPath, Dir: filepath.Dir(path), File: path,
		Funcs: map[string]*FuncContract{}, Trusted: map[string]*FuncContract{}, Pures: map[string]*PureFn{}}
	// gather //@ lines, grouping continuations
	var items []rawItem
	for i, ln := range strings.Split(string(b), "\n") {
		t := strings.TrimSpace(ln)
		if !strings.HasPrefix(t, "//@") {
			continue
		}
		body := stripComment(strings.TrimPrefix(t, "//@"))
		if strings.TrimSpace(body) == "" {
			continue
		}
		w, _ := firstWord(body)
		if declKW[w] || clauseKW[w] {
			items = append(items, rawItem{strings.TrimSpace(body), i + 1})
		} else {
			if len(items) == 0 {
				return nil, fmt.Errorf("%s:%d: continuation without a clause", path, i+1)
			}
			items[len(items)-1].text += " " + strings.TrimSpace(body)
		}
	}
	var cur *FuncContract
	fail := func(it rawItem, f string, a ...interface{}) error {
		return fmt.Errorf("%s:%d: %s", path, it.line, fmt.Sprintf(f, a...))
	}
	for _, it := range items {
		w, rest := firstWord(it.text)
		switch w {
		case "func", "iface", "trusted":
			name := rest
			cur = &FuncContract{PkgPath: pkgPath, Name: name, Kind: w, File: path, Line: it.line}
			if w == "trusted" {
				if _, dup := pc.Trusted[name]; dup {
					return nil, fail(it, "duplicate trusted %s", name)
				}
				pc.Trusted[name] = cur
			} else {
				if _, dup := pc.Funcs[name]; dup {
					return nil, fail(it, "duplicate contract %s", name)
				}
				pc.Funcs[name] = cur
				pc.Order = append(pc.Order, name)
			}
		case "pure":
			pf, err := parsePure(rest)
			if err != nil {
				return nil, fail(it, "%v", err)
			}
			pc.Pures[pf.Name] = pf
			cur = nil
		case "axiom", "lemma":
			i := strings.Index(rest, ":")
			if i < 0 {
				return nil, fail(it, "axiom/lemma needs name: expr")
			}
			name := strings.TrimSpace(rest[:i])
			mode := ""
			use := false
			var forFns []string
			if f := strings.Fields(name); len(f) >= 2 {
				name = f[0]
				inFor := false
				for _, x := range f[1:] {
					switch {
					case x == "for":
						inFor = true
					case inFor:
						forFns = append(forFns, strings.Trim(x, ","))
					case x == "use":
						use = true // a lemma proved as an obligation AND made available to the function VCs of its package
					default:
						mode = x
					}
				}
			}
			e, err := ParseExpr(rest[i+1:])
			if err != nil {
				return nil, fail(it, "%v", err)
			}
			l := Lemma{Name: name, E: e, Src: strings.TrimSpace(rest[i+1:]), Mode: mode, Line: it.line, Use: use, For: forFns}
			if w == "axiom" {
				pc.Axioms = append(pc.Axioms, l)
			} else {
				pc.Lemmas = append(pc.Lemmas, l)
			}
			cur = nil
		case "ghost":
			n, t := firstWord(rest)
			pc.Ghosts = append(pc.Ghosts, GhostVar{n, t})
			cur = nil
		case "constglobal":
			// package-level variables initialised once and never reassigned (e.g. error values): reads are state-independent
			for _, n := range strings.Split(rest, ",") {
				if n = strings.TrimSpace(n); n != "" {
					pc.ConstGlobals = append(pc.ConstGlobals, n)
				}
			}
			cur = nil
		case "immutable":
			// immutable Cxx: T1, T2 after F1, F2 in pkg1, pkg2
			im := Immutable{Line: it.line}
			if j := strings.Index(rest, ":"); j > 0 && j < 6 {
				im.Prop = strings.TrimSpace(rest[:j])
				rest = strings.TrimSpace(rest[j+1:])
			}
			if j := strings.Index(rest, " in "); j >= 0 {
				for _, f := range strings.Split(rest[j+4:], ",") {
					im.Pkgs = append(im.Pkgs, strings.TrimSpace(f))
				}
				rest = rest[:j]
			}
			i := strings.Index(rest, " after ")
			ts := rest
			if i >= 0 {
				ts = rest[:i]
				for _, f := range strings.Split(rest[i+7:], ",") {
					im.After = append(im.After, strings.TrimSpace(f))
				}
			}
			for _, t := range strings.Split(ts, ",") {
				im.Types = append(im.Types, strings.TrimSpace(t))
			}
			pc.Immut = append(pc.Immut, im)
			cur = nil
		case "property":
			i := strings.Index(rest, ":")
			if i < 0 {
				return nil, fail(it, "property needs id: funcs")
			}
			pd := PropDecl{ID: strings.TrimSpace(rest[:i])}
			for _, f := range splitTop(rest[i+1:], ',') {
				f = strings.TrimSpace(f)
				if f == "" {
					continue
				}
				if strings.HasPrefix(f, "lemma ") {
					pd.Lemmas = append(pd.Lemmas, strings.TrimSpace(f[6:]))
				} else {
					pd.Funcs = append(pd.Funcs, f)
				}
			}
			pc.Props = append(pc.Props, pd)
			cur = nil
		default:
			if cur == nil {
				return nil, fail(it, "clause %q outside a func/iface/trusted declaration", w)
			}
			if err := parseClause(cur, w, rest, it.line); err != nil {
				return nil, fail(it, "%v", err)
			}
		}
	}
	return pc, nil
}

// splitTop splits on sep at parenthesis depth 0.
func splitTop(s string, sep byte) []string {
	var out []string
	depth := 0
	last := 0
	for i := 0; i < len(s); i++ {
		switch s[i] {
		case '(', '[':
			depth++
		case ')', ']':
			depth--
		default:
			if s[i] == sep && depth == 0 {
				out = append(out, s[last:i])
				last = i + 1
			}
		}
	}
	out = append(out, s[last:])
	return out
}

var pureRe = regexp.MustCompile(`^([A-Za-z_][A-Za-z0-9_]*)\s*\(([^)]*)\)\s*([^=]*?)\s*(=\s*(.*))?$`)

func parsePure(s string) (*PureFn, error) {
	m := pureRe.FindStringSubmatch(strings.TrimSpace(s))
	if m == nil {
		return nil, fmt.Errorf("bad pure declaration %q", s)
	}
	pf := &PureFn{Name: m[1], Ret: strings.TrimSpace(m[3]), Src: s}
	if strings.TrimSpace(m[2]) != "" {
		for _, p := range strings.Split(m[2], ",") {
			n, t := firstWord(p)
			if t == "" {
				return nil, fmt.Errorf("pure %s: parameter %q needs a type", pf.Name, p)
			}
			pf.Params = append(pf.Params, Param{n, t})
		}
	}
	if m[4] != "" {
		e, err := ParseExpr(m[5])
		if err != nil {
			return nil, err
		}
		pf.Body = e
	}
	return pf, nil
}

func mkClause(src string, line int) (Clause, error) {
	label := ""
	s := strings.TrimSpace(src)
	if strings.HasPrefix(s, "case ") {
		i := strings.Index(s, ":")
		if i < 0 {
			return Clause{}, fmt.Errorf("case label needs ':'")
		}
		label = strings.TrimSpace(s[5:i])
		s = strings.TrimSpace(s[i+1:])
	}
	// `case L uses A, B:` -- the proof of this clause takes only the labelled loop invariants A, B (and L itself) as
	// hypotheses; the other labelled invariants are left out of its script (fewer hypotheses: sound)
	var uses []string
	hasUses := false
	if j := strings.Index(label, " uses"); j > 0 {
		hasUses = true
		for _, u := range strings.Split(label[j+5:], ",") {
			if u = strings.TrimSpace(u); u != "" {
				uses = append(uses, u)
			}
		}
		label = strings.TrimSpace(label[:j])
	}
	e, err := ParseExpr(s)
	if err != nil {
		return Clause{}, err
	}
	return Clause{Label: label, E: e, Src: s, Line: line, Uses: uses, HasUses: hasUses}, nil
}

var loopRe = regexp.MustCompile(`^(\d+)?\s*(\(([^)]*)\))?\s+(invariant|unroll|decreases|assigns)\s+(.*)$`)
var callRefRe = regexp.MustCompile(`^(after|at)\s+call\s+(\S+?)(#(\d+))?\s*(when\s+(.*?))?\s*:\s*(.*)$`)

func (fc *FuncContract) loopSpec(key string, vars []string) *LoopSpec {
	for _, l := range fc.Loops {
		if l.Key == key && strings.Join(l.Vars, ",") == strings.Join(vars, ",") {
			return l
		}
	}
	l := &LoopSpec{Key: key, Vars: vars}
	fc.Loops = append(fc.Loops, l)
	return l
}

func parseClause(fc *FuncContract, kw, rest string, line int) error {
	switch kw {
	case "mode":
		f := strings.Fields(rest)
		if len(f) == 0 || (f[0] != "bv" && f[0] != "int") {
			return fmt.Errorf("mode must be bv or int")
		}
		fc.Mode = f[0]
		for _, x := range f[1:] {
			if x == "wraps" {
				fc.NoOverflow = true
			}
		}
	case "wraps":
		fc.NoOverflow = true
	case "requires", "ensures", "may-panic", "assume", "hint":
		if kw == "may-panic" {
			rest = strings.TrimSpace(strings.TrimPrefix(strings.TrimSpace(rest), "when"))
		}
		c, err := mkClause(rest, line)
		if err != nil {
			return err
		}
		switch kw {
		case "requires":
			fc.Requires = append(fc.Requires, c)
		case "ensures":
			fc.Ensures = append(fc.Ensures, c)
		case "may-panic":
			fc.MayPanic = append(fc.MayPanic, c)
		case "assume":
			fc.Axioms = append(fc.Axioms, c)
		case "hint":
			fc.Hints = append(fc.Hints, c)
		}
	case "assigns":
		fc.HasAssigns = true
		if strings.TrimSpace(rest) == `\nothing` {
			return nil
		}
		for _, part := range splitTop(rest, ',') {
			c, err := mkClause(part, line)
			if err != nil {
				return err
			}
			fc.Assigns = append(fc.Assigns, c)
		}
	case "inline":
		fc.Inline = true
	case "pure-call":
		fc.Pure = true
		fc.HasAssigns = true
	case "params":
		for _, p := range strings.Split(rest, ",") {
			fc.Params = append(fc.Params, strings.TrimSpace(p))
		}
	case "loop":
		m := loopRe.FindStringSubmatch(strings.TrimSpace(rest))
		if m == nil {
			return fmt.Errorf("bad loop clause %q", rest)
		}
		var vars []string
		if m[3] != "" {
			for _, v := range strings.Split(m[3], ",") {
				vars = append(vars, strings.TrimSpace(v))
			}
		}
		ls := fc.loopSpec(m[1], vars)
		switch m[4] {
		case "invariant":
			c, err := mkClause(m[5], line)
			if err != nil {
				return err
			}
			ls.Invariants = append(ls.Invariants, c)
		case "unroll":
			n, err := strconv.Atoi(strings.TrimSpace(m[5]))
			if err != nil {
				return err
			}
			ls.Unroll = n
		case "decreases":
			c, err := mkClause(m[5], line)
			if err != nil {
				return err
			}
			ls.Decreases = &c
		case "assigns":
			for _, part := range splitTop(m[5], ',') {
				if strings.TrimSpace(part) == `\local` {
					ls.LocalOnly = true
					continue
				}
				c, err := mkClause(part, line)
				if err != nil {
					return err
				}
				ls.Assigns = append(ls.Assigns, c)
			}
		}
	case "assert":
		m := callRefRe.FindStringSubmatch(strings.TrimSpace(rest))
		if m == nil {
			return fmt.Errorf("bad assert clause %q", rest)
		}
		n := 0
		if m[4] != "" {
			n, _ = strconv.Atoi(m[4])
		}
		c, err := mkClause(m[7], line)
		if err != nil {
			return err
		}
		fc.CallAsserts = append(fc.CallAsserts, CallAssert{Callee: m[2], N: n, HasN: m[4] != "", C: c})
	case "assert-all-calls":
		// assert-all-calls [except A, B]: expr   -- expr must hold before every call (except the listed callees)
		r := strings.TrimSpace(rest)
		i := strings.Index(r, ":")
		if i < 0 {
			return fmt.Errorf("assert-all-calls needs ': expr'")
		}
		head := strings.TrimSpace(r[:i])
		ca := CallAssert{Callee: "*"}
		if strings.HasPrefix(head, "except") {
			for _, x := range strings.Split(strings.TrimSpace(strings.TrimPrefix(head, "except")), ",") {
				if x = strings.TrimSpace(x); x != "" {
					ca.Except = append(ca.Except, x)
				}
			}
		}
		c, err := mkClause(r[i+1:], line)
		if err != nil {
			return err
		}
		ca.C = c
		fc.CallAsserts = append(fc.CallAsserts, ca)
	case "ghost-update":
		r := strings.TrimSpace(rest)
		gu := GhostUpdate{Src: r}
		var asg string
		if strings.HasPrefix(r, "at entry") {
			gu.AtEntry = true
			i := strings.Index(r, ":")
			asg = r[i+1:]
		} else {
			m := callRefRe.FindStringSubmatch(r)
			if m == nil {
				return fmt.Errorf("bad ghost-update %q", rest)
			}
			gu.Callee = m[2]
			if m[4] != "" {
				gu.N, _ = strconv.Atoi(m[4])
			}
			if m[6] != "" {
				e, err := ParseExpr(m[6])
				if err != nil {
					return err
				}
				gu.When = e
			}
			asg = m[7]
		}
		for _, a := range splitTop(asg, ',') {
			i := strings.Index(a, "=")
			if i < 0 {
				return fmt.Errorf("bad ghost assignment %q", a)
			}
			e, err := ParseExpr(a[i+1:])
			if err != nil {
				return err
			}
			gu.Names = append(gu.Names, strings.TrimSpace(a[:i]))
			gu.Vals = append(gu.Vals, e)
		}
		fc.GhostUpds = append(fc.GhostUpds, gu)
	case "instantiate":
		m := regexp.MustCompile(`^(\w+)\s+in\s+(\d+)\s*\.\.\s*(\d+)$`).FindStringSubmatch(strings.TrimSpace(rest))
		if m == nil {
			return fmt.Errorf("instantiate: want `NAME in lo..hi`")
		}
		fc.InstName = m[1]
		fc.InstLo, _ = strconv.Atoi(m[2])
		fc.InstHi, _ = strconv.Atoi(m[3])
		if fc.InstLo > fc.InstHi {
			return fmt.Errorf("instantiate: empty range")
		}
	default:
		return fmt.Errorf("unknown clause %q", kw)
	}
	return nil
}
