package main

import (
	"bytes"
	"context"
	"fmt"
	"os"
	"os/exec"
	"path/filepath"
	"strings"
	"sync"
	"time"
)

type solverSpec struct {
	name string
	argv func(file string, timeoutS int) []string
}

var solvers = []solverSpec{
	{"z3-new", func(f string, t int) []string { return []string{"z3-new", fmt.Sprintf("-T:%d", t), f} }},
	{"z3", func(f string, t int) []string { return []string{"z3", fmt.Sprintf("-T:%d", t), f} }},
	{"cvc5", func(f string, t int) []string {
		return []string{"cvc5", fmt.Sprintf("--tlimit=%d", t*1000), "--produce-models", f}
	}},
}

type solveResult struct {
	verdict string // unsat | sat | unknown
	solver  string
	ms      int64
	output  string
	all     map[string]string
}

func firstLine(s string) string {
	for _, l := range strings.Split(s, "\n") {
		l = strings.TrimSpace(l)
		if l != "" {
			return l
		}
	}
	return ""
}

// wallFactor: a solver budget of t seconds is t seconds of CPU time (ulimit -t, so that the verdict does not depend
// on how loaded the machine is) and at most wallFactor*t seconds of wall-clock time (the back end's own timeout).
const wallFactor = 6

// limited wraps a solver command line in a CPU-time limit.
func limited(s solverSpec, file string, timeoutS int) []string {
	argv := s.argv(file, timeoutS*wallFactor)
	return append([]string{"sh", "-c", fmt.Sprintf("ulimit -c 0; ulimit -t %d; exec \"$@\"", timeoutS), "sh"}, argv...)
}

func runOne(s solverSpec, file string, timeoutS int) solveResult {
	ctx, cancel := context.WithTimeout(context.Background(), time.Duration(timeoutS*wallFactor+2)*time.Second)
	defer cancel()
	t0 := time.Now()
	argv := limited(s, file, timeoutS)
	out, _ := exec.CommandContext(ctx, argv[0], argv[1:]...).CombinedOutput()
	fl := firstLine(string(out))
	res := solveResult{verdict: "unknown", solver: s.name, ms: time.Since(t0).Milliseconds(), output: string(out), all: map[string]string{}}
	if fl == "unsat" || fl == "sat" {
		res.verdict = fl
	}
	res.all[s.name] = res.verdict
	return res
}

// rescueSolvers: further configurations of the same back ends, tried only after every default configuration
// answered unknown. A quantified obligation that needs model-based instantiation is decided or given up
// ("incomplete quantifiers") depending on the search order; another seed is another proof search, and
// "unsat" from any configuration is as conclusive as from the default one.
var rescueSolvers = []solverSpec{
	{"z3-new/seed1", func(f string, t int) []string { return []string{"z3-new", fmt.Sprintf("-T:%d", t), "smt.random_seed=1", f} }},
	{"z3-new/seed2", func(f string, t int) []string { return []string{"z3-new", fmt.Sprintf("-T:%d", t), "smt.random_seed=2", f} }},
	{"z3-new/seed3", func(f string, t int) []string { return []string{"z3-new", fmt.Sprintf("-T:%d", t), "smt.random_seed=3", f} }},
	{"z3-new/noauto", func(f string, t int) []string { return []string{"z3-new", fmt.Sprintf("-T:%d", t), "smt.auto_config=false", f} }},
	{"z3/seed1", func(f string, t int) []string { return []string{"z3", fmt.Sprintf("-T:%d", t), "smt.random_seed=1", f} }},
	{"cvc5/enum", func(f string, t int) []string {
		return []string{"cvc5", fmt.Sprintf("--tlimit=%d", t*1000), "--produce-models", "--enum-inst", f}
	}},
}

// raceSolvers runs the installed solvers on file; first definitive answer wins.
func raceSolvers(file string, timeoutS int, useAll bool) solveResult {
	return raceSpecs(solvers, file, timeoutS, useAll)
}

func raceSpecs(solvers []solverSpec, file string, timeoutS int, useAll bool) solveResult {
	ctx, cancel := context.WithTimeout(context.Background(), time.Duration(timeoutS*wallFactor+5)*time.Second)
	defer cancel()
	type one struct {
		name, verdict, out string
		ms                 int64
	}
	ch := make(chan one, len(solvers))
	for _, s := range solvers {
		s := s
		go func() {
			t0 := time.Now()
			argv := limited(s, file, timeoutS)
			cmd := exec.CommandContext(ctx, argv[0], argv[1:]...)
			var out bytes.Buffer
			cmd.Stdout = &out
			cmd.Stderr = &out
			cmd.Run()
			fl := firstLine(out.String())
			v := "unknown"
			if fl == "unsat" || fl == "sat" {
				v = fl
			}
			ch <- one{s.name, v, out.String(), time.Since(t0).Milliseconds()}
		}()
	}
	res := solveResult{verdict: "unknown", all: map[string]string{}}
	got := 0
	for got < len(solvers) {
		o := <-ch
		got++
		res.all[o.name] = o.verdict
		if o.verdict == "unsat" || o.verdict == "sat" {
			if res.verdict == "unknown" {
				res.verdict, res.solver, res.ms, res.output = o.verdict, o.name, o.ms, o.out
				if !useAll {
					cancel()
					// drain in background
					go func(n int) {
						for i := 0; i < n; i++ {
							<-ch
						}
					}(len(solvers) - got)
					return res
				}
			} else if res.verdict != o.verdict {
				res.verdict = "disagree"
				res.output += "\n--- " + o.name + ": " + o.verdict
			}
		} else if res.verdict == "unknown" {
			res.output += fmt.Sprintf("[%s: %s] ", o.name, firstLine(o.out))
			if o.ms > res.ms {
				res.ms = o.ms
			}
		}
	}
	return res
}

// getValues re-runs a sat query asking for the values of terms (z3-new first).
func getValues(script string, terms []string, workfile string, timeoutS int) (map[string]string, string) {
	if len(terms) == 0 {
		return nil, ""
	}
	s := strings.Replace(script, "(check-sat)\n", "", 1)
	s += "(check-sat)\n(get-value (" + strings.Join(terms, " ") + "))\n"
	os.WriteFile(workfile, []byte(s), 0o644)
	for _, sv := range []string{"z3-new", "cvc5", "z3"} {
		var argv []string
		for _, sp := range solvers {
			if sp.name == sv {
				argv = sp.argv(workfile, timeoutS)
			}
		}
		ctx, cancel := context.WithTimeout(context.Background(), time.Duration(timeoutS+5)*time.Second)
		out, _ := exec.CommandContext(ctx, argv[0], argv[1:]...).CombinedOutput()
		cancel()
		txt := string(out)
		if firstLine(txt) != "sat" {
			continue
		}
		vals := parseGetValue(txt[strings.Index(txt, "sat")+3:])
		m := map[string]string{}
		for i, t := range terms {
			if i < len(vals) {
				m[t] = vals[i]
			}
		}
		return m, sv
	}
	return nil, ""
}

// parseGetValue parses ((t1 v1) (t2 v2) ...) returning the values in order.
func parseGetValue(s string) []string {
	s = strings.TrimSpace(s)
	if !strings.HasPrefix(s, "(") {
		return nil
	}
	// tokenise into top-level pairs
	var vals []string
	depth := 0
	start := -1
	for i := 0; i < len(s); i++ {
		switch s[i] {
		case '(':
			depth++
			if depth == 2 {
				start = i
			}
		case ')':
			if depth == 2 && start >= 0 {
				pair := s[start+1 : i]
				// split term and value: term is first s-expr
				vals = append(vals, strings.TrimSpace(pair[sexprEnd(pair):]))
				start = -1
			}
			depth--
		}
	}
	return vals
}

func sexprEnd(s string) int {
	s2 := strings.TrimLeft(s, " \n\t")
	off := len(s) - len(s2)
	if len(s2) == 0 {
		return len(s)
	}
	if s2[0] != '(' {
		if s2[0] == '|' {
			j := strings.Index(s2[1:], "|")
			return off + j + 2
		}
		j := strings.IndexAny(s2, " \n\t")
		if j < 0 {
			return len(s)
		}
		return off + j
	}
	d := 0
	for i := 0; i < len(s2); i++ {
		if s2[i] == '(' {
			d++
		} else if s2[i] == ')' {
			d--
			if d == 0 {
				return off + i + 1
			}
		}
	}
	return len(s)
}

// discharge runs all obligations in parallel.
func discharge(obls []*Oblig, workdir string, timeoutS, retryS int, useAll bool, workers int) {
	os.MkdirAll(workdir, 0o755)
	var wg sync.WaitGroup
	sem := make(chan struct{}, workers)
	for _, o := range obls {
		o := o
		wg.Add(1)
		sem <- struct{}{}
		go func() {
			defer wg.Done()
			defer func() { <-sem }()
			script := o.gen.script(o)
			o.Bytes = len(script)
			f := filepath.Join(workdir, sanitize(o.Name)+".smt2")
			os.WriteFile(f, []byte(script), 0o644)
			o.SmtFile = f
			var r solveResult
			if o.Budget > 0 {
				// known finding: only check that it still reproduces, with a short budget
				r = raceSolvers(f, o.Budget, false)
				o.Solver, o.Ms, o.Output = r.solver, r.ms, r.output
				switch r.verdict {
				case "unsat":
					o.Status = "discharged"
				case "sat":
					o.Status = "failed"
				default:
					o.Status = "undischarged"
				}
				return
			}
			// the sliced script has fewer assumptions: only "unsat" is conclusive on it
			sf := ""
			if ss := o.gen.slicedScript(o); ss != "" {
				sf = filepath.Join(workdir, sanitize(o.Name)+".sliced.smt2")
				os.WriteFile(sf, []byte(ss), 0o644)
			}
			slicedOK := func(rs solveResult) bool {
				if rs.verdict != "unsat" {
					return false
				}
				o.Solver, o.Ms, o.Output, o.Status = rs.solver+"(sliced)", rs.ms, rs.output, "discharged"
				return true
			}
			if !useAll {
				// stage 0: sliced script, short budgets
				if sf != "" {
					rs := runOne(solvers[0], sf, 2)
					if rs.verdict != "unsat" {
						rs = raceSolvers(sf, 3, false)
					}
					if slicedOK(rs) {
						return
					}
				}
				// stage 1: the fastest back end alone with a short budget
				r = runOne(solvers[0], f, 3)
			}
			if useAll || r.verdict == "unknown" {
				r = raceSolvers(f, timeoutS, useAll)
			}
			if r.verdict == "unknown" {
				// last stage, long budget: every configuration (default back ends plus other seeds / instantiation
				// modes) on the sliced script and then on the full one. Obligations normally never get here; the
				// stage exists so that a proof that is found in 1 s on an idle machine is not reported as a
				// violation because the machine was loaded or the default search order gave up.
				every := append(append([]solverSpec{}, solvers...), rescueSolvers...)
				if retryS < timeoutS {
					retryS = timeoutS
				}
				if sf != "" && slicedOK(raceSpecs(every, sf, retryS, false)) {
					return
				}
				if rr := raceSpecs(every, f, retryS, false); rr.verdict != "unknown" {
					r = rr
				} else {
					r.output += rr.output
				}
			}
			o.Solver, o.Ms, o.Output = r.solver, r.ms, r.output
			switch r.verdict {
			case "unsat":
				o.Status = "discharged"
			case "sat":
				o.Status = "failed"
			case "disagree":
				o.Status = "engine-error"
			default:
				o.Status = "undischarged"
				// an ill-formed script (sort error, unknown symbol) is a verifier bug, never a verdict
				if strings.Contains(r.output, "z3-new: (error") || strings.Contains(r.output, "z3: (error") {
					o.Status = "engine-error"
				}
			}
		}()
	}
	wg.Wait()
}
