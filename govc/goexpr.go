package main

// Contract expression -> Go source (for replaying counterexamples on the real code).

import (
	"fmt"
	"sort"
	"strings"
)

type goGen struct {
	pcs     []*PkgContracts
	pures   map[string]bool // spec functions needed
	oldVars map[string]bool // names referenced under old()
	err     error
	inOld   bool
	rename  map[string]string
	bound   map[string]int
}

func (gg *goGen) fail(f string, a ...interface{}) string {
	if gg.err == nil {
		gg.err = fmt.Errorf(f, a...)
	}
	return "false"
}

func (gg *goGen) findPure(name string) *PureFn {
	for _, pc := range gg.pcs {
		if pc == nil {
			continue
		}
		if p, ok := pc.Pures[name]; ok {
			return p
		}
	}
	return nil
}

var goBuiltinConv = map[string]bool{"int": true, "int8": true, "int16": true, "int32": true, "int64": true, "uint": true,
	"uint8": true, "uint16": true, "uint32": true, "uint64": true, "byte": true}

func (gg *goGen) expr(e Expr) string {
	switch n := e.(type) {
	case *EInt:
		return n.V.String()
	case *EBool:
		return fmt.Sprint(n.V)
	case *EStr:
		return fmt.Sprintf("%q", n.S)
	case *EIdent:
		if n.Name == "nil" {
			return "nil"
		}
		name := n.Name
		if r, ok := gg.rename[name]; ok {
			name = r
		}
		if gg.bound[name] > 0 {
			return name
		}
		if gg.inOld {
			gg.oldVars[name] = true
			return "old_" + name
		}
		if p := gg.findPure(n.Name); p != nil && len(p.Params) == 0 {
			gg.pures[n.Name] = true
			return "spec_" + n.Name + "()"
		}
		return name
	case *EUn:
		return "(" + n.Op + gg.expr(n.X) + ")"
	case *EBin:
		switch n.Op {
		case "==>":
			return "(!(" + gg.expr(n.X) + ") || (" + gg.expr(n.Y) + "))"
		case "<==>":
			return "((" + gg.expr(n.X) + ") == (" + gg.expr(n.Y) + "))"
		case "==", "!=":
			// slice comparison: same window of the same array (approximated by equal contents and length)
			if isSliceish(n.X) || isSliceish(n.Y) {
				if id, ok := n.Y.(*EIdent); ok && id.Name == "nil" {
					return "(" + gg.expr(n.X) + " " + n.Op + " nil)"
				}
				r := "specSameSlice(" + gg.expr(n.X) + ", " + gg.expr(n.Y) + ")"
				if n.Op == "!=" {
					r = "!" + r
				}
				return r
			}
		}
		return "(" + gg.expr(n.X) + " " + n.Op + " " + gg.expr(n.Y) + ")"
	case *EIndex:
		return gg.expr(n.X) + "[" + gg.expr(n.I) + "]"
	case *ESlice:
		lo, hi := "", ""
		if n.Lo != nil {
			lo = gg.expr(n.Lo)
		}
		if n.Hi != nil {
			hi = gg.expr(n.Hi)
		}
		return gg.expr(n.X) + "[" + lo + ":" + hi + "]"
	case *ESel:
		return gg.expr(n.X) + "." + n.Name
	case *EQuant:
		if n.Typ != "" {
			return gg.fail("typed quantifier cannot be replayed")
		}
		kind := "specForall"
		if !n.Forall {
			kind = "specExists"
		}
		lo, hi := gg.expr(n.Lo), gg.expr(n.Hi)
		if gg.bound == nil {
			gg.bound = map[string]int{}
		}
		gg.bound[n.Var]++
		body := gg.expr(n.Body)
		gg.bound[n.Var]--
		return fmt.Sprintf("%s(int(%s), int(%s), func(%s int) bool { return %s })", kind, lo, hi, n.Var, body)
	case *ECall:
		var fname string
		switch f := n.Fn.(type) {
		case *EIdent:
			fname = f.Name
		default:
			return gg.fail("call of %s", exprString(n.Fn))
		}
		switch fname {
		case "old":
			save := gg.inOld
			gg.inOld = true
			r := gg.expr(n.Args[0])
			gg.inOld = save
			return r
		case "len", "cap":
			return fname + "(" + gg.expr(n.Args[0]) + ")"
		case "ite":
			return fmt.Sprintf("specIte(%s, %s, %s)", gg.expr(n.Args[0]), gg.expr(n.Args[1]), gg.expr(n.Args[2]))
		case "fresh":
			return "true"
		case "mem":
			return fmt.Sprintf("specMem(%s, %s)", gg.expr(n.Args[0]), gg.expr(n.Args[1]))
		}
		if goBuiltinConv[fname] {
			return fname + "(" + gg.expr(n.Args[0]) + ")"
		}
		if p := gg.findPure(fname); p != nil {
			if p.Body == nil {
				return gg.fail("uninterpreted spec function %s", fname)
			}
			gg.pures[fname] = true
			var as []string
			for i, a := range n.Args {
				as = append(as, p.Params[i].Type+"("+gg.expr(a)+")")
			}
			return "spec_" + fname + "(" + strings.Join(as, ", ") + ")"
		}
		return gg.fail("function %s cannot be replayed", fname)
	}
	return gg.fail("expression %s cannot be replayed", exprString(e))
}

func isSliceish(e Expr) bool {
	_, ok := e.(*ESlice)
	return ok
}

// pureBody renders the body of a spec function with ite in return position as if/else.
func (gg *goGen) pureBody(e Expr, ret string) string {
	if c, ok := e.(*ECall); ok {
		if id, ok := c.Fn.(*EIdent); ok && id.Name == "ite" && len(c.Args) == 3 {
			return fmt.Sprintf("if %s { %s }\n%s", gg.expr(c.Args[0]), gg.pureBody(c.Args[1], ret), gg.pureBody(c.Args[2], ret))
		}
	}
	return "return " + ret + "(" + gg.expr(e) + ")"
}

// pureDecls renders all needed spec functions (transitively).
func (gg *goGen) pureDecls() string {
	var out strings.Builder
	done := map[string]bool{}
	for {
		var todo []string
		for n := range gg.pures {
			if !done[n] {
				todo = append(todo, n)
			}
		}
		if len(todo) == 0 {
			break
		}
		sort.Strings(todo)
		for _, n := range todo {
			done[n] = true
			p := gg.findPure(n)
			var ps []string
			for _, q := range p.Params {
				ps = append(ps, q.Name+" "+q.Type)
			}
			save := gg.inOld
			gg.inOld = false
			saveR := gg.rename
			gg.rename = nil
			fmt.Fprintf(&out, "func spec_%s(%s) %s {\n%s\n}\n", n, strings.Join(ps, ", "), p.Ret, gg.pureBody(p.Body, p.Ret))
			gg.inOld = save
			gg.rename = saveR
		}
	}
	return out.String()
}

const goSpecHelpers = `
func specForall(lo, hi int, f func(int) bool) bool {
	for i := lo; i < hi; i++ {
		if !f(i) {
			return false
		}
	}
	return true
}
func specExists(lo, hi int, f func(int) bool) bool {
	for i := lo; i < hi; i++ {
		if f(i) {
			return true
		}
	}
	return false
}
func specSameSlice[T comparable](a, b []T) bool {
	if len(a) != len(b) {
		return false
	}
	for i := range a {
		if a[i] != b[i] {
			return false
		}
	}
	return true
}
func specIte[T any](c bool, a, b T) T {
	if c {
		return a
	}
	return b
}
func specMem[T comparable](l []T, x T) bool {
	for _, y := range l {
		if y == x {
			return true
		}
	}
	return false
}
`
