package main

// Contract expression language: Go expression syntax plus
//   old(e)  a ==> b  a <==> b  forall(i, lo, hi, P)  exists(i, lo, hi, P)
//   forall(x T, P)  exists(x T, P)  ite(c, a, b)  typeis(x, T)  \nothing
// Own tokenizer + Pratt parser (go/parser cannot take ==> and typed binders).

import (
	"fmt"
	"math/big"
	"strings"
)

type Expr interface{}

type EIdent struct{ Name string }
type EInt struct{ V *big.Int }
type EBool struct{ V bool }
type EStr struct{ S string }
type EBin struct {
	Op   string
	X, Y Expr
}
type EUn struct {
	Op string
	X  Expr
}
type ECall struct {
	Fn   Expr // EIdent or ESel or EType
	Args []Expr
}
type EIndex struct{ X, I Expr }
type ESlice struct{ X, Lo, Hi Expr }
type ESel struct {
	X    Expr
	Name string
}
type EType struct{ T string } // a type expression such as []byte, *Foo, pkg.T
type EQuant struct {
	Forall bool
	Var    string
	Typ    string // "" for ranged integer quantifier
	Lo, Hi Expr   // when ranged
	Body   Expr
}

type tok struct {
	k string // "id" "int" "str" "op" "eof"
	s string
	v *big.Int
}

func lexExpr(src string) ([]tok, error) {
	var out []tok
	i := 0
	n := len(src)
	ops := []string{"<==>", "==>", "&&", "||", "==", "!=", "<=", ">=", "<<", ">>", "&^", "..",
		"+", "-", "*", "/", "%", "&", "|", "^", "<", ">", "!", "(", ")", "[", "]", ",", ":", ".", "\\", "{", "}"}
	for i < n {
		c := src[i]
		if c == ' ' || c == '\t' || c == '\n' || c == '\r' {
			i++
			continue
		}
		if c == '_' || (c >= 'a' && c <= 'z') || (c >= 'A' && c <= 'Z') || c == '$' {
			j := i + 1
			for j < n && (src[j] == '_' || src[j] == '$' || (src[j] >= 'a' && src[j] <= 'z') || (src[j] >= 'A' && src[j] <= 'Z') || (src[j] >= '0' && src[j] <= '9')) {
				j++
			}
			out = append(out, tok{k: "id", s: src[i:j]})
			i = j
			continue
		}
		if c >= '0' && c <= '9' {
			j := i + 1
			for j < n && ((src[j] >= '0' && src[j] <= '9') || (src[j] >= 'a' && src[j] <= 'f') || (src[j] >= 'A' && src[j] <= 'F') || src[j] == 'x' || src[j] == 'X' || src[j] == '_') {
				j++
			}
			v, ok := new(big.Int).SetString(strings.ReplaceAll(src[i:j], "_", ""), 0)
			if !ok {
				return nil, fmt.Errorf("bad number %q", src[i:j])
			}
			out = append(out, tok{k: "int", s: src[i:j], v: v})
			i = j
			continue
		}
		if c == '\'' {
			// char literal
			j := i + 1
			var r byte
			if j < n && src[j] == '\\' {
				j++
				switch src[j] {
				case 'n':
					r = '\n'
				case 't':
					r = '\t'
				case 'r':
					r = '\r'
				case '0':
					r = 0
				case '\\':
					r = '\\'
				case '\'':
					r = '\''
				case '"':
					r = '"'
				default:
					return nil, fmt.Errorf("bad escape in char literal")
				}
				j++
			} else if j < n {
				r = src[j]
				j++
			}
			if j >= n || src[j] != '\'' {
				return nil, fmt.Errorf("bad char literal in %q", src)
			}
			out = append(out, tok{k: "int", s: src[i : j+1], v: big.NewInt(int64(r))})
			i = j + 1
			continue
		}
		if c == '"' {
			j := i + 1
			var sb strings.Builder
			for j < n && src[j] != '"' {
				if src[j] == '\\' && j+1 < n {
					j++
					switch src[j] {
					case 'n':
						sb.WriteByte('\n')
					case 't':
						sb.WriteByte('\t')
					case '\\':
						sb.WriteByte('\\')
					case '"':
						sb.WriteByte('"')
					default:
						sb.WriteByte(src[j])
					}
					j++
					continue
				}
				sb.WriteByte(src[j])
				j++
			}
			if j >= n {
				return nil, fmt.Errorf("unterminated string in %q", src)
			}
			out = append(out, tok{k: "str", s: sb.String()})
			i = j + 1
			continue
		}
		matched := false
		for _, op := range ops {
			if strings.HasPrefix(src[i:], op) {
				out = append(out, tok{k: "op", s: op})
				i += len(op)
				matched = true
				break
			}
		}
		if !matched {
			return nil, fmt.Errorf("unexpected character %q in %q", c, src)
		}
	}
	out = append(out, tok{k: "eof"})
	return out, nil
}

type eparser struct {
	toks []tok
	p    int
	src  string
}

func ParseExpr(src string) (e Expr, err error) {
	toks, err := lexExpr(src)
	if err != nil {
		return nil, err
	}
	ps := &eparser{toks: toks, src: src}
	defer func() {
		if r := recover(); r != nil {
			if pe, ok := r.(parseErr); ok {
				err = fmt.Errorf("%s in %q", string(pe), src)
				return
			}
			panic(r)
		}
	}()
	e = ps.expr(0)
	if ps.peek().k != "eof" {
		ps.fail("trailing tokens at %q", ps.peek().s)
	}
	return e, nil
}

type parseErr string

func (ps *eparser) fail(f string, a ...interface{}) { panic(parseErr(fmt.Sprintf(f, a...))) }
func (ps *eparser) peek() tok                        { return ps.toks[ps.p] }
func (ps *eparser) next() tok                        { t := ps.toks[ps.p]; ps.p++; return t }
func (ps *eparser) isOp(s string) bool               { t := ps.peek(); return t.k == "op" && t.s == s }
func (ps *eparser) expect(s string) {
	if !ps.isOp(s) {
		ps.fail("expected %q, got %q", s, ps.peek().s)
	}
	ps.p++
}

var binPrec = map[string]int{
	"<==>": 1, "==>": 2, "||": 3, "&&": 4,
	"==": 5, "!=": 5, "<": 5, "<=": 5, ">": 5, ">=": 5,
	"+": 6, "-": 6, "|": 6, "^": 6,
	"*": 7, "/": 7, "%": 7, "<<": 7, ">>": 7, "&": 7, "&^": 7,
}

func (ps *eparser) expr(minPrec int) Expr {
	lhs := ps.unary()
	for {
		t := ps.peek()
		if t.k != "op" {
			return lhs
		}
		prec, ok := binPrec[t.s]
		if !ok || prec < minPrec {
			return lhs
		}
		ps.p++
		var rhs Expr
		if t.s == "==>" {
			rhs = ps.expr(prec) // right associative
		} else {
			rhs = ps.expr(prec + 1)
		}
		lhs = &EBin{Op: t.s, X: lhs, Y: rhs}
	}
}

func (ps *eparser) unary() Expr {
	t := ps.peek()
	if t.k == "op" && (t.s == "!" || t.s == "-" || t.s == "^") {
		ps.p++
		x := ps.unary()
		if t.s == "-" {
			if c, ok := x.(*EInt); ok {
				return &EInt{V: new(big.Int).Neg(c.V)}
			}
		}
		return &EUn{Op: t.s, X: x}
	}
	return ps.postfix(ps.primary())
}

// typeExpr parses a type: []T, *T, [N]T, map[K]V, T, pkg.T
func (ps *eparser) typeExpr() string {
	t := ps.peek()
	if t.k == "op" && t.s == "[" {
		ps.p++
		if ps.isOp("]") {
			ps.p++
			return "[]" + ps.typeExpr()
		}
		n := ps.next()
		ps.expect("]")
		return "[" + n.s + "]" + ps.typeExpr()
	}
	if t.k == "op" && t.s == "*" {
		ps.p++
		return "*" + ps.typeExpr()
	}
	if t.k == "id" {
		ps.p++
		if t.s == "map" && ps.isOp("[") {
			ps.p++
			k := ps.typeExpr()
			ps.expect("]")
			return "map[" + k + "]" + ps.typeExpr()
		}
		if t.s == "interface" && ps.isOp("{") {
			ps.p++
			ps.expect("}")
			return "interface{}"
		}
		if ps.isOp(".") && ps.toks[ps.p+1].k == "id" {
			ps.p++
			n := ps.next()
			return t.s + "." + n.s
		}
		return t.s
	}
	ps.fail("expected type, got %q", t.s)
	return ""
}

func (ps *eparser) primary() Expr {
	t := ps.next()
	switch t.k {
	case "int":
		return &EInt{V: t.v}
	case "str":
		return &EStr{S: t.s}
	case "id":
		switch t.s {
		case "true":
			return &EBool{V: true}
		case "false":
			return &EBool{V: false}
		case "forall", "exists":
			if ps.isOp("(") {
				ps.p++
				v := ps.next()
				if v.k != "id" {
					ps.fail("quantifier variable expected")
				}
				q := &EQuant{Forall: t.s == "forall", Var: v.s}
				if ps.isOp(",") {
					ps.p++
					q.Lo = ps.expr(0)
					ps.expect(",")
					q.Hi = ps.expr(0)
					ps.expect(",")
					q.Body = ps.expr(0)
				} else {
					q.Typ = ps.typeExpr()
					ps.expect(",")
					q.Body = ps.expr(0)
				}
				ps.expect(")")
				return q
			}
		}
		return &EIdent{Name: t.s}
	case "op":
		switch t.s {
		case "(":
			// could be a parenthesised type in a conversion like (*T)(x): not supported
			e := ps.expr(0)
			ps.expect(")")
			return e
		case "\\":
			n := ps.next()
			return &EIdent{Name: "\\" + n.s}
		case "[":
			// type expression: []byte(x) conversion or typeis arg
			ps.p--
			return &EType{T: ps.typeExpr()}
		case "*":
			// *T type expression (only valid as typeis arg / conversion)
			ps.p--
			return &EType{T: ps.typeExpr()}
		}
	}
	ps.fail("unexpected token %q", t.s)
	return nil
}

func (ps *eparser) postfix(e Expr) Expr {
	for {
		t := ps.peek()
		if t.k != "op" {
			return e
		}
		switch t.s {
		case "(":
			ps.p++
			var args []Expr
			for !ps.isOp(")") {
				args = append(args, ps.expr(0))
				if ps.isOp(",") {
					ps.p++
				} else {
					break
				}
			}
			ps.expect(")")
			e = &ECall{Fn: e, Args: args}
		case "[":
			ps.p++
			var lo, hi Expr
			if ps.isOp(":") {
				ps.p++
				if !ps.isOp("]") {
					hi = ps.expr(0)
				}
				ps.expect("]")
				e = &ESlice{X: e, Lo: nil, Hi: hi}
				continue
			}
			lo = ps.expr(0)
			if ps.isOp(":") {
				ps.p++
				if !ps.isOp("]") {
					hi = ps.expr(0)
				}
				ps.expect("]")
				e = &ESlice{X: e, Lo: lo, Hi: hi}
				continue
			}
			ps.expect("]")
			e = &EIndex{X: e, I: lo}
		case ".":
			ps.p++
			n := ps.next()
			if n.k != "id" {
				ps.fail("selector expected")
			}
			e = &ESel{X: e, Name: n.s}
		default:
			return e
		}
	}
}

func exprString(e Expr) string {
	switch x := e.(type) {
	case *EIdent:
		return x.Name
	case *EInt:
		return x.V.String()
	case *EBool:
		return fmt.Sprint(x.V)
	case *EStr:
		return fmt.Sprintf("%q", x.S)
	case *EBin:
		return "(" + exprString(x.X) + " " + x.Op + " " + exprString(x.Y) + ")"
	case *EUn:
		return x.Op + exprString(x.X)
	case *ECall:
		var a []string
		for _, y := range x.Args {
			a = append(a, exprString(y))
		}
		return exprString(x.Fn) + "(" + strings.Join(a, ", ") + ")"
	case *EIndex:
		return exprString(x.X) + "[" + exprString(x.I) + "]"
	case *ESlice:
		lo, hi := "", ""
		if x.Lo != nil {
			lo = exprString(x.Lo)
		}
		if x.Hi != nil {
			hi = exprString(x.Hi)
		}
		return exprString(x.X) + "[" + lo + ":" + hi + "]"
	case *ESel:
		return exprString(x.X) + "." + x.Name
	case *EType:
		return x.T
	case *EQuant:
		k := "exists"
		if x.Forall {
			k = "forall"
		}
		if x.Typ != "" {
			return k + "(" + x.Var + " " + x.Typ + ", " + exprString(x.Body) + ")"
		}
		return k + "(" + x.Var + ", " + exprString(x.Lo) + ", " + exprString(x.Hi) + ", " + exprString(x.Body) + ")"
	}
	return "?"
}
