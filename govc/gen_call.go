package main

import (
	"sort"
	"fmt"
	"go/token"
	"go/types"
	"os"
	"strings"

	"golang.org/x/tools/go/ssa"
)

// effectFree: callees trusted to have no effect on the heap visible to the verified code
// (results unconstrained unless a trusted contract says more). Listed in the evidence.
var effectFreePrefixes = []string{
	"fmt.", "errors.", "strconv.", "strings.", "bytes.", "math.", "math/bits.", "unicode.", "unicode/utf8.", "unicode/utf16.",
	"time.Now", "time.Since", "time.Unix", "time.Parse", "time.Date", "time.Until", "(time.Time).", "(time.Duration).", "(time.Month).", "(*time.Location).",
	"(*sync.Mutex).", "(*sync.RWMutex).", "(*sync.WaitGroup).", "(*sync.Once).",
	"sync/atomic.Load", "(*sync/atomic.",
	"github.com/XiaoMi/Gaea/log.", "(*github.com/XiaoMi/Gaea/log",
	"(github.com/XiaoMi/Gaea/log", "github.com/XiaoMi/Gaea/log/",
	"net.ParseIP", "net.ParseCIDR", "(net.IP).", "(*net.IPNet).", "net.IPv4",
	"(error).Error", "encoding/hex.", "encoding/binary.",
	"(encoding/binary.littleEndian).Uint", "(encoding/binary.bigEndian).Uint",
	"github.com/XiaoMi/Gaea/stats", "(*github.com/XiaoMi/Gaea/stats",
	"math/rand.Seed", "math/rand.Intn", "math/rand.Int", "math/rand.Float", "math/rand.New",
	"runtime.", "os.Getenv", "reflect.TypeOf", "reflect.DeepEqual",
	"github.com/XiaoMi/Gaea/core/errors.", "(*github.com/XiaoMi/Gaea/mysql.SQLError).Error",
	"github.com/XiaoMi/Gaea/mysql.NewError", "github.com/XiaoMi/Gaea/mysql.NewDefaultError", "github.com/XiaoMi/Gaea/mysql.NewErrf",
	"github.com/XiaoMi/Gaea/util/hack.String", "github.com/XiaoMi/Gaea/util/hack.Slice",
}

var nonNilResult = map[string]bool{"errors.New": true, "fmt.Errorf": true,
	"github.com/XiaoMi/Gaea/mysql.NewError": true, "github.com/XiaoMi/Gaea/mysql.NewDefaultError": true, "github.com/XiaoMi/Gaea/mysql.NewErrf": true}

func isEffectFree(name string) bool {
	for _, p := range effectFreePrefixes {
		if strings.HasPrefix(name, p) {
			return true
		}
	}
	return false
}

func (g *FnGen) calleeName(c *ssa.CallCommon) string {
	if c.IsInvoke() {
		return fmt.Sprintf("(%s).%s", types.TypeString(c.Value.Type(), nil), c.Method.Name())
	}
	if f := c.StaticCallee(); f != nil {
		return f.String()
	}
	if b, ok := c.Value.(*ssa.Builtin); ok {
		return b.Name()
	}
	return "dynamic:" + c.Value.Name()
}

func shortCallee(name string) string {
	// strip package paths: (*github.com/x/y/pkg.T).M -> (*pkg.T).M
	var b strings.Builder
	i := 0
	for i < len(name) {
		j := i
		for j < len(name) && (name[j] == '/' || name[j] == '.' || name[j] == '_' || name[j] == '-' || (name[j] >= 'a' && name[j] <= 'z') || (name[j] >= 'A' && name[j] <= 'Z') || (name[j] >= '0' && name[j] <= '9')) {
			j++
		}
		seg := name[i:j]
		if k := strings.LastIndex(seg, "/"); k >= 0 {
			seg = seg[k+1:]
		}
		b.WriteString(seg)
		if j < len(name) {
			b.WriteByte(name[j])
			j++
		}
		i = j
	}
	return b.String()
}

func (g *FnGen) resultVal(name string, res *types.Tuple) Val {
	switch res.Len() {
	case 0:
		return Val{S: "Tuple", GT: res}
	case 1:
		return g.unknownOf(name, res.At(0).Type())
	}
	return g.unknownOf(name, res)
}

func (g *FnGen) bumpAlloc() {
	old := g.heapGet(g.cur, "$alloc", "Int")
	n := g.heapNew("$alloc")
	g.assume(fmt.Sprintf("(>= %s %s)", n, old))
	g.cur.h["$alloc"] = n
}

func (g *FnGen) havocAll(why string) {
	old := g.heapGet(g.cur, "$alloc", "Int")
	e := g.newEpoch()
	g.epochAllocLo[e] = append(g.epochAllocLo[e], old)
	// keep ghost visited sets of map ranges (not program-visible)
	keep := map[string]string{}
	for f, t := range g.cur.h {
		if strings.HasPrefix(f, "Visited_") || strings.HasPrefix(f, "Ghost_") {
			keep[f] = t
		}
	}
	for _, fam := range g.ghost {
		keep[fam] = g.heapGet(g.cur, fam, g.famSort[fam])
	}
	g.cur = &State{h: keep, epoch: e}
	g.note("havocked whole heap: " + why)
}

func (g *FnGen) call(instr ssa.Instruction, c *ssa.CallCommon) Val {
	res := c.Signature().Results()
	if b, ok := c.Value.(*ssa.Builtin); ok {
		return g.builtin(instr, b, c)
	}
	name := g.calleeName(c)
	short := shortCallee(name)
	n := g.callCnt[short]
	g.callCnt[short] = n + 1
	var args []Val
	if c.IsInvoke() {
		args = append(args, g.val(c.Value))
	}
	for _, a := range c.Args {
		args = append(args, g.val(a))
	}
	callee := c.StaticCallee()
	g.callAsserts(instr, short, n, args)
	if strings.HasPrefix(name, "sync/atomic.") && !c.IsInvoke() {
		if r, ok := g.atomicCall(instr, strings.TrimPrefix(name, "sync/atomic."), c, args); ok {
			return r
		}
	}
	var fc *FuncContract
	var pc *PkgContracts
	// a trusted contract declared in the verified function's own package file wins over other packages' declarations
	if t := g.pc.Trusted[name]; t != nil {
		fc, pc = t, g.pc
	} else {
		fc, pc = g.prog.findContract(c, callee, name)
	}
	var rname string
	if v, ok := instr.(ssa.Value); ok {
		rname = v.Name()
	} else {
		rname = "defer"
	}
	if fc != nil && fc.Inline && callee != nil {
		g.unsupported("inline contracts not implemented (%s)", name)
	}
	var result Val
	if fc == nil {
		// closure call with known target: captured variables may be written
		result = g.resultVal(rname, res)
		if isEffectFree(name) {
			g.note("trusted effect-free callee: " + short)
			g.bumpAlloc()
			if nonNilResult[name] {
				if result.S == "Iface" {
					g.assumeHere(fmt.Sprintf("(not (= %s nil_iface))", result.T))
				} else if result.S == "Int" {
					g.assumeHere(fmt.Sprintf("(not (= %s 0))", result.T))
				}
			}
		} else {
			g.havocAll("call to " + short + " (no contract)")
		}
	} else {
		result = g.applyContract(fc, pc, c, callee, args, res, rname, short, n, instr.Pos())
	}
	// ghost updates attached to this call site: "ghost-update after call C#N [when P]: g = e"
	// (e and P may mention the call's results ret0.. and locals)
	if !g.dry || true {
		for _, gu := range g.fc.GhostUpds {
			if gu.AtEntry || !strings.HasSuffix(short, gu.Callee) || gu.N != n {
				continue
			}
			env := g.localEnv(instr.Block(), nil)
			switch res.Len() {
			case 0:
			case 1:
				env.vars["ret0"] = result
			default:
				for i, v := range result.Tuple {
					env.vars[fmt.Sprintf("ret%d", i)] = v
				}
			}
			for i, a := range args {
				env.vars[fmt.Sprintf("arg%d", i)] = a
			}
			if gu.When != nil {
				g.unsupported("ghost-update with a when clause is not implemented")
			}
			g.applyGhostUpdate(gu, env)
		}
	}
	return result
}

// atomicCall models the sync/atomic package functions as plain (sequentially atomic) cell operations.
func (g *FnGen) atomicCall(instr ssa.Instruction, fn string, c *ssa.CallCommon, args []Val) (Val, bool) {
	kinds := []string{"Add", "Load", "Store", "Swap", "CompareAndSwap"}
	kind := ""
	for _, k := range kinds {
		if strings.HasPrefix(fn, k) {
			kind = k
		}
	}
	if kind == "" || len(args) == 0 {
		return Val{}, false
	}
	pt, ok := c.Args[0].Type().Underlying().(*types.Pointer)
	if !ok {
		return Val{}, false
	}
	el := pt.Elem()
	bits, signed, isInt := intInfo(el)
	a := g.addrOf(args[0])
	g.nilCheck(a, instr.Pos())
	g.note("sync/atomic." + fn + " modelled as a plain cell operation (sequential semantics)")
	cur := Val{T: g.load(g.cur, a), S: g.sortOf(el), GT: el}
	write := func(v string) {
		g.frameCheck(a, instr.Pos())
		g.loopFrameCheck(a.Fam, a.Ref, instr.Pos())
		g.store(g.cur, a, v)
	}
	var res Val
	switch kind {
	case "Load":
		res = cur
	case "Store":
		write(args[1].T)
		return Val{}, true
	case "Swap":
		old := g.fresh("swapold", cur.S)
		g.assume(fmt.Sprintf("(= %s %s)", old, cur.T))
		write(args[1].T)
		res = Val{T: old, S: cur.S, GT: el}
	case "Add":
		if !isInt {
			return Val{}, false
		}
		var sum string
		if g.mode == "bv" {
			sum = fmt.Sprintf("(bvadd %s %s)", cur.T, args[1].T)
		} else {
			sum = g.wrap(fmt.Sprintf("(+ %s %s)", cur.T, args[1].T), bits, signed)
		}
		nv := g.fresh("atomicnew", cur.S)
		g.assume(fmt.Sprintf("(= %s %s)", nv, sum))
		write(nv)
		res = Val{T: nv, S: cur.S, GT: el}
	case "CompareAndSwap":
		ok := g.fresh("cas", "Bool")
		g.assume(fmt.Sprintf("(= %s (= %s %s))", ok, cur.T, args[1].T))
		write(fmt.Sprintf("(ite %s %s %s)", ok, args[2].T, cur.T))
		res = Val{T: ok, S: "Bool", GT: types.Typ[types.Bool]}
	}
	if v, isVal := instr.(ssa.Value); isVal {
		res.GT = v.Type()
	}
	return res, true
}

// callAsserts: contract clauses "assert at call C#N: P" and "assert-all-calls [except ...]: P" become
// obligations at the matching call sites (protocol automata, call-order/dominance properties).
func (g *FnGen) callAsserts(instr ssa.Instruction, short string, n int, args []Val) {
	if g.dry {
		return
	}
	// the callee name without package qualifier, e.g. (*SessionExecutor).doQuery
	bare := short
	if i := strings.LastIndex(short, "."); i >= 0 {
		if j := strings.LastIndex(short[:i], "."); j >= 0 && !strings.Contains(short[j:i], ")") {
			_ = j
		}
	}
	for k, ca := range g.fc.CallAsserts {
		match := false
		if ca.Callee == "*" {
			match = true
			for _, ex := range ca.Except {
				if strings.HasSuffix(short, ex) || strings.HasSuffix(bare, ex) {
					match = false
				}
			}
			if isEffectFree(g.calleeFull(instr)) {
				match = false
			}
		} else if strings.HasSuffix(short, ca.Callee) && (!ca.HasN || ca.N == n) {
			match = true
		}
		if !match {
			continue
		}
		env := g.localEnv(instr.Block(), nil)
		for i, a := range args {
			env.vars[fmt.Sprintf("arg%d", i)] = a
		}
		name := fmt.Sprintf("callsite/%s#%d/assert#%d", short, n, k)
		if ca.C.Label != "" {
			name = fmt.Sprintf("callsite/%s#%d/assert:%s", short, n, ca.C.Label)
		}
		g.oblige("callsite", name, env.trBool(ca.C.E), ca.C.Src, instr.Pos())
	}
}

func (g *FnGen) calleeFull(instr ssa.Instruction) string {
	switch i := instr.(type) {
	case *ssa.Call:
		return g.calleeName(&i.Call)
	case *ssa.Defer:
		return g.calleeName(&i.Call)
	case *ssa.Go:
		return g.calleeName(&i.Call)
	}
	return ""
}

func (g *FnGen) paramNames(fc *FuncContract, c *ssa.CallCommon, callee *ssa.Function, nargs int) []string {
	if len(fc.Params) > 0 {
		return fc.Params
	}
	var names []string
	if callee != nil && len(callee.Params) == nargs {
		for _, p := range callee.Params {
			names = append(names, p.Name())
		}
		return names
	}
	sig := c.Signature()
	if c.IsInvoke() {
		names = append(names, "recv")
		sig = c.Method.Type().(*types.Signature)
	} else if sig.Recv() != nil {
		n := sig.Recv().Name()
		if n == "" {
			n = "recv"
		}
		names = append(names, n)
	}
	for i := 0; i < sig.Params().Len(); i++ {
		n := sig.Params().At(i).Name()
		if n == "" || n == "_" {
			n = fmt.Sprintf("arg%d", i)
		}
		names = append(names, n)
	}
	return names
}

func (g *FnGen) applyContract(fc *FuncContract, pc *PkgContracts, c *ssa.CallCommon, callee *ssa.Function, args []Val,
	res *types.Tuple, rname, short string, n int, pos token.Pos) Val {
	names := g.paramNames(fc, c, callee, len(args))
	if len(names) != len(args) {
		g.unsupported("contract %s: %d parameter names for %d arguments", fc.Name, len(names), len(args))
	}
	var cpkg *types.Package
	if pc != nil {
		cpkg = g.prog.typesPkg(pc.PkgPath)
	}
	pre := g.cur.clone()
	env := &Env{g: g, vars: map[string]Val{}, cur: pre, old: pre, pkg: cpkg, pcs: []*PkgContracts{pc, g.pc}}
	for i, nm := range names {
		env.vars[nm] = args[i]
		env.vars[fmt.Sprintf("arg%d", i)] = args[i]
	}
	// closure: captured variables visible by name
	if mc, ok := c.Value.(*ssa.MakeClosure); ok && callee != nil {
		for i, fv := range callee.FreeVars {
			env.vars[fv.Name()] = g.val(mc.Bindings[i])
		}
	}
	if fc.Kind != "trusted" || len(fc.Requires) > 0 {
		for k, rq := range fc.Requires {
			name := fmt.Sprintf("pre@call/%s#%d/req#%d", short, n, k)
			if rq.Label != "" {
				name = fmt.Sprintf("pre@call/%s#%d/req:%s", short, n, rq.Label)
			}
			g.oblige("pre@call", name, env.trBool(rq.E), rq.Src, pos)
		}
	}
	// may-panic of the callee becomes a safety obligation here
	for k, mp := range fc.MayPanic {
		g.safetyX(fmt.Sprintf("callee-panic/%s#%d/%d", short, n, k), "(not "+env.trBool(mp.E)+")", "callee may panic when "+mp.Src, pos, false)
	}
	// frame
	g.bumpAlloc()
	if fc.Pure || (fc.HasAssigns && len(fc.Assigns) == 0) {
		// nothing else changes
	} else if fc.HasAssigns {
		for _, a := range fc.Assigns {
			g.havocLoc(env, a.E)
		}
		// caller frame: the callee's frame must be inside ours (one obligation per callee location)
		if g.fc.HasAssigns && !g.dry {
			for k, a := range fc.Assigns {
				g.calleeFrameInclusion(env, a.E, fmt.Sprintf("frame/call/%s#%d/loc#%d", short, n, k), pos)
			}
		}
	} else {
		g.havocAll("call to " + short + " (contract without assigns clause)")
	}
	if fc.Kind == "trusted" {
		g.note("trusted contract: " + fc.Name)
	} else if fc.Kind == "iface" {
		g.note("interface contract assumed at call: " + fc.Name)
	} else if pc != nil {
		g.note("callee contract used: " + pc.PkgPath[strings.LastIndex(pc.PkgPath, "/")+1:] + "." + fc.Name)
	}
	result := g.resultVal(rname, res)
	post := &Env{g: g, vars: map[string]Val{}, cur: g.cur, old: pre, pkg: cpkg, pcs: []*PkgContracts{pc, g.pc}}
	for k, v := range env.vars {
		post.vars[k] = v
	}
	bindRes := func(i int, v Val) {
		post.vars[fmt.Sprintf("ret%d", i)] = v
		if nm := res.At(i).Name(); nm != "" && nm != "_" {
			if _, clash := post.vars[nm]; !clash {
				post.vars[nm] = v
			}
		}
	}
	switch res.Len() {
	case 0:
	case 1:
		bindRes(0, result)
	default:
		for i, v := range result.Tuple {
			bindRes(i, v)
		}
	}
	for k, en := range fc.Ensures {
		// a postcondition with a recorded (unrepaired) finding is known to be false for some inputs: a caller may rely on
		// it only for the input class the finding does not cover (its `except`), and not at all when there is none
		if pc != nil {
			if skip, guards := knownClauseGuards(pc.PkgPath, fc, en, k); skip {
				g.note("callee postcondition with a recorded finding is not assumed at the call: " + fc.Name + " / " + en.Src)
				continue
			} else if len(guards) > 0 {
				conds := []string{}
				for _, gx := range guards {
					e, err := ParseExpr(gx)
					if err != nil {
						g.unsupported("known finding of %s: bad except %q", fc.Name, gx)
					}
					conds = append(conds, env.trBool(e))
				}
				g.note("callee postcondition with a recorded finding is assumed only under its residual condition: " + fc.Name + " / " + en.Src)
				g.assumeHere(fmt.Sprintf("(=> (and %s) %s)", strings.Join(conds, " "), post.trBool(en.E)))
				continue
			}
		}
		g.assumeHere(post.trBool(en.E))
	}
	return result
}

var knownClauseCache map[string][]KnownFinding

// knownClauseGuards: recorded findings (status known) against a postcondition of the callee: skip = some finding has no
// residual condition; otherwise the residual conditions of all of them.
func knownClauseGuards(pkgPath string, fc *FuncContract, en Clause, ord int) (skip bool, guards []string) {
	fn, label := fc.Name, en.Label
	if knownClauseCache == nil {
		knownClauseCache = map[string][]KnownFinding{}
		if kf, err := loadKnown(); err == nil {
			for _, f := range kf.Findings {
				if f.Status != "known" {
					continue
				}
				name := f.Obligation
				if i := strings.LastIndex(name, "@"); i > 0 {
					name = name[:i]
				}
				knownClauseCache[name] = append(knownClauseCache[name], f)
			}
		}
	}
	short := pkgPath[strings.LastIndex(pkgPath, "/")+1:]
	key := fmt.Sprintf("%s.%s/post#%d", short, fn, ord)
	if label != "" {
		key = fmt.Sprintf("%s.%s/post:%s", short, fn, label)
	}
	cands := append([]KnownFinding{}, knownClauseCache[key]...)
	// a recorded finding against a loop invariant of the callee leaves every postcondition proved "given the invariant"
	// without support for the inputs the finding covers
	// ... unless the postcondition selects its hypotheses (`uses`) and none of the invariants it rests on, directly or
	// through their own `uses` lists, is one with a finding
	var support map[string]bool
	if en.HasUses {
		support = map[string]bool{}
		work := append([]string{}, en.Uses...)
		closed := true
		for len(work) > 0 {
			l := work[0]
			work = work[1:]
			if support[l] {
				continue
			}
			support[l] = true
			found := false
			for _, ls := range fc.Loops {
				for _, inv := range ls.Invariants {
					if inv.Label == l {
						found = true
						if !inv.HasUses {
							closed = false // rests on every invariant of the loop
						}
						work = append(work, inv.Uses...)
					}
				}
			}
			if !found && !strings.HasPrefix(l, "post:") {
				closed = false
			}
		}
		if !closed {
			support = nil
		}
	}
	prefix := fmt.Sprintf("%s.%s/loop", short, fn)
	for name, fs := range knownClauseCache {
		if !strings.HasPrefix(name, prefix) {
			continue
		}
		if support != nil {
			if i := strings.Index(name, "/inv:"); i >= 0 {
				l := name[i+5:]
				if j := strings.Index(l, "/"); j >= 0 {
					l = l[:j]
				}
				if !support[l] {
					continue
				}
			}
		}
		cands = append(cands, fs...)
	}
	seen := map[string]bool{}
	for _, f := range cands {
		if f.Except == "" {
			return true, nil
		}
		if !seen[f.Except] {
			seen[f.Except] = true
			guards = append(guards, f.Except)
		}
	}
	sort.Strings(guards)
	return false, guards
}

// havocLoc havocs one assigns location (evaluated in the callee's pre-state env).
func (g *FnGen) havocLoc(env *Env, loc Expr) {
	switch l := loc.(type) {
	case *ESlice:
		s := env.tr(l.X)
		st, ok := typeUnder(s.GT).(*types.Slice)
		if !ok {
			g.unsupported("assigns: %s is not a slice", exprString(l.X))
		}
		fam, sort := g.elemFam(st.Elem())
		h := g.heapGet(g.cur, fam, sort)
		lo := g.ilit64(0)
		if l.Lo != nil {
			lo = env.asIdx(env.tr(l.Lo))
		}
		hi := slen(s.T)
		if l.Hi != nil {
			hi = env.asIdx(env.tr(l.Hi))
		}
		row := g.fresh("row", fmt.Sprintf("(Array %s %s)", g.idx(), g.sortOf(st.Elem())))
		j := "hv!j"
		g.assume(fmt.Sprintf("(forall ((%s %s)) (! (=> (or %s %s) (= (select %s %s) (select (select %s %s) %s))) :pattern ((select %s %s))))",
			j, g.idx(), g.slt(j, g.add(soff(s.T), lo)), g.sle(g.add(soff(s.T), hi), j), row, j, h, sref(s.T), j, row, j))
		g.loopFrameCheck(fam, sref(s.T), token.NoPos)
		g.heapSet(g.cur, fam, fmt.Sprintf("(store %s %s %s)", h, sref(s.T), row))
	case *EIndex:
		g.havocLoc(env, &ESlice{X: l.X, Lo: l.I, Hi: &EBin{Op: "+", X: l.I, Y: &EInt{V: bigOne}}})
	case *ECall:
		// mapof(m): the contents of map m; elemsof(s): the elements of slice s
		id, _ := l.Fn.(*EIdent)
		// fieldsof(T): every field of every object of struct type T; elemsoftype(T): the elements of every []T
		if id != nil && len(l.Args) == 1 && (id.Name == "fieldsof" || id.Name == "elemsoftype") {
			for _, fam := range g.typeFrameFams(env, id.Name, l.Args[0]) {
				g.cur.h[fam] = g.heapNew(fam)
			}
			return
		}
		if id == nil || len(l.Args) != 1 || (id.Name != "mapof" && id.Name != "elemsof") {
			g.unsupported("assigns: cannot interpret %s", exprString(loc))
		}
		v := env.tr(l.Args[0])
		switch u := typeUnder(v.GT).(type) {
		case *types.Map:
			pf, ps, vf, vs := g.mapFams2(u)
			lf, ls := g.mapLenFam(u)
			for _, fs := range [][2]string{{pf, ps}, {vf, vs}, {lf, ls}} {
				h := g.heapGet(g.cur, fs[0], fs[1])
				inner := strings.TrimSuffix(strings.TrimPrefix(fs[1], "(Array Int "), ")")
				row := g.fresh("row", inner)
				g.loopFrameCheck(fs[0], v.T, token.NoPos)
				g.heapSet(g.cur, fs[0], fmt.Sprintf("(store %s %s %s)", h, v.T, row))
			}
		case *types.Slice:
			fam, sort := g.elemFam(u.Elem())
			h := g.heapGet(g.cur, fam, sort)
			row := g.fresh("row", fmt.Sprintf("(Array %s %s)", g.idx(), g.sortOf(u.Elem())))
			g.loopFrameCheck(fam, sref(v.T), token.NoPos)
			g.heapSet(g.cur, fam, fmt.Sprintf("(store %s %s %s)", h, sref(v.T), row))
		default:
			g.unsupported("assigns: %s is neither a map nor a slice", exprString(l.Args[0]))
		}
	case *ESel:
		x := env.tr(l.X)
		p, ok := typeUnder(x.GT).(*types.Pointer)
		if !ok {
			// a field of a struct value that is itself stored in a field (s.f.g): havoc the enclosing location s.f
			if _, isSt := typeUnder(x.GT).(*types.Struct); isSt {
				g.havocLoc(env, l.X)
				return
			}
			g.unsupported("assigns: %s is not a pointer", exprString(l.X))
		}
		st, ok := p.Elem().Underlying().(*types.Struct)
		if !ok {
			g.unsupported("assigns: %s is not a struct pointer", exprString(l.X))
		}
		if x.Addr != nil && x.Addr.Fam != "$struct" {
			// interior pointer: havoc the field through the address
			for i := 0; i < st.NumFields(); i++ {
				if st.Field(i).Name() == l.Name {
					na := *x.Addr
					na.Path = append(append([]pathStep{}, x.Addr.Path...), pathStep{field: i, st: p.Elem()})
					na.T = st.Field(i).Type()
					nv := g.unknownOf("hv", na.T)
					g.loopFrameCheck(na.Fam, na.Ref, token.NoPos)
					g.store(g.cur, &na, nv.T)
					return
				}
			}
			g.unsupported("assigns: no field %s", l.Name)
		}
		for i := 0; i < st.NumFields(); i++ {
			if st.Field(i).Name() == l.Name || l.Name == "$all" {
				fam, sort, ft := g.fieldFam(p.Elem(), i)
				h := g.heapGet(g.cur, fam, sort)
				if mt, isMap := ft.Underlying().(*types.Map); isMap && l.Name != "$all" {
					// p.f of map type names the field AND the contents of the map it holds at the call
					mv := fmt.Sprintf("(select %s %s)", h, x.T)
					pf, ps, vf, vs := g.mapFams2(mt)
					lf, ls := g.mapLenFam(mt)
					for _, fs := range [][2]string{{pf, ps}, {vf, vs}, {lf, ls}} {
						hh := g.heapGet(g.cur, fs[0], fs[1])
						inner := strings.TrimSuffix(strings.TrimPrefix(fs[1], "(Array Int "), ")")
						row := g.fresh("row", inner)
						g.loopFrameCheck(fs[0], mv, token.NoPos)
						g.heapSet(g.cur, fs[0], fmt.Sprintf("(store %s %s %s)", hh, mv, row))
					}
				}
				nv := g.unknownOf("hv", ft)
				g.loopFrameCheck(fam, x.T, token.NoPos)
				g.heapSet(g.cur, fam, fmt.Sprintf("(store %s %s %s)", h, x.T, nv.T))
				if l.Name != "$all" {
					return
				}
			}
		}
		if l.Name != "$all" {
			g.unsupported("assigns: no field %s", l.Name)
		}
	case *EIdent:
		if fam, ok := g.ghost[l.Name]; ok {
			n := g.heapNew(fam)
			g.cur.h[fam] = n
			return
		}
		if v, ok := env.vars[l.Name]; ok {
			switch u := typeUnder(v.GT).(type) {
			case *types.Slice:
				g.havocLoc(env, &ESlice{X: l})
				return
			case *types.Map:
				pf, ps, vf, vs := g.mapFams2(u)
				lf, ls := g.mapLenFam(u)
				for _, fs := range [][2]string{{pf, ps}, {vf, vs}, {lf, ls}} {
					h := g.heapGet(g.cur, fs[0], fs[1])
					// element sort of the outer array
					inner := strings.TrimSuffix(strings.TrimPrefix(fs[1], "(Array Int "), ")")
					row := g.fresh("row", inner)
					g.loopFrameCheck(fs[0], v.T, token.NoPos)
					g.heapSet(g.cur, fs[0], fmt.Sprintf("(store %s %s %s)", h, v.T, row))
				}
				return
			case *types.Pointer:
				if _, ok := u.Elem().Underlying().(*types.Struct); ok {
					g.havocLoc(env, &ESel{X: l, Name: "$all"})
					return
				}
			}
		}
		if env.pkg != nil {
			if o := env.pkg.Scope().Lookup(l.Name); o != nil {
				if vv, ok := o.(*types.Var); ok {
					fam := "Glob_" + sanitize(vv.Pkg().Name()+"."+vv.Name())
					g.famInit(fam, fmt.Sprintf("(Array Int %s)", g.sortOf(vv.Type())))
					n := g.heapNew(fam)
					g.cur.h[fam] = n
					return
				}
			}
		}
		g.unsupported("assigns: cannot interpret %s", l.Name)
	default:
		g.unsupported("assigns: cannot interpret %s", exprString(loc))
	}
}

func (g *FnGen) applyGhostUpdate(gu GhostUpdate, env *Env) {
	var vals []Val
	for _, e := range gu.Vals {
		vals = append(vals, env.tr(e))
	}
	// all right-hand sides and keys are evaluated in the state before the update (simultaneous assignment)
	var keys []*Val
	for _, n := range gu.Names {
		if i := strings.Index(n, "["); i > 0 && strings.HasSuffix(n, "]") {
			ke, err := ParseExpr(n[i+1 : len(n)-1])
			if err != nil {
				g.unsupported("ghost-update: bad key in %s", n)
			}
			k := env.tr(ke)
			keys = append(keys, &k)
		} else {
			keys = append(keys, nil)
		}
	}
	for i, n := range gu.Names {
		if keys[i] != nil {
			// ghost function updated at one point: name[k] = e
			n = n[:strings.Index(n, "[")]
			fam, ok := g.ghost[n]
			mt, isMap := typeUnder(g.ghostType[n]).(*types.Map)
			if !ok || !isMap {
				g.unsupported("ghost-update: %s is not a ghost function", n)
			}
			k := env.coerceTo(*keys[i], mt.Key())
			v := env.coerceTo(vals[i], mt.Elem())
			h := g.heapGet(g.cur, fam, g.famSort[fam])
			g.heapSet(g.cur, fam, fmt.Sprintf("(store %s 0 (store (select %s 0) %s %s))", h, h, k.T, v.T))
			continue
		}
		fam, ok := g.ghost[n]
		if !ok {
			g.unsupported("ghost-update: %s is not a ghost variable", n)
		}
		v := env.coerceTo(vals[i], g.ghostType[n])
		h := g.heapGet(g.cur, fam, g.famSort[fam])
		g.heapSet(g.cur, fam, fmt.Sprintf("(store %s 0 %s)", h, v.T))
	}
}

// ---------------------------------------------------------------- builtins

func (g *FnGen) builtin(instr ssa.Instruction, b *ssa.Builtin, c *ssa.CallCommon) Val {
	v, _ := instr.(ssa.Value)
	switch b.Name() {
	case "len", "cap":
		x := g.val(c.Args[0])
		var t string
		switch u := c.Args[0].Type().Underlying().(type) {
		case *types.Slice:
			t = slen(x.T)
			if b.Name() == "cap" {
				t = scap(x.T)
			}
		case *types.Basic:
			t = "(slen " + x.T + ")"
		case *types.Map:
			lf, ls := g.mapLenFam(u)
			t = fmt.Sprintf("(ite (= %s 0) %s (select %s %s))", x.T, g.ilit64(0), g.heapGet(g.cur, lf, ls), x.T)
		case *types.Pointer:
			t = g.ilit64(u.Elem().Underlying().(*types.Array).Len())
		case *types.Array:
			t = g.ilit64(u.Len())
		default:
			g.unsupported("len of %s", c.Args[0].Type())
		}
		r := g.define(v, t, g.idx())
		if _, isMap := c.Args[0].Type().Underlying().(*types.Map); isMap {
			g.assume(g.sle(g.ilit64(0), r.T))
		}
		return r
	case "append":
		return g.appendBuiltin(v, c)
	case "copy":
		return g.copyBuiltin(v, c, instr.Pos())
	case "delete":
		m := g.val(c.Args[0])
		k := g.val(c.Args[1])
		mt := c.Args[0].Type().Underlying().(*types.Map)
		pf, ps, _, _ := g.mapFams2(mt)
		lf, ls := g.mapLenFam(mt)
		hp := g.heapGet(g.cur, pf, ps)
		hl := g.heapGet(g.cur, lf, ls)
		g.frameCheckFam("map", m.T, instr.Pos())
		g.loopFrameCheck(pf, m.T, instr.Pos())
		// delete on nil map is a no-op
		g.heapSet(g.cur, lf, fmt.Sprintf("(ite (= %s 0) %s (store %s %s (ite (select (select %s %s) %s) %s (select %s %s))))", m.T, hl, hl, m.T, hp, m.T, k.T, g.sub(fmt.Sprintf("(select %s %s)", hl, m.T), g.ilit64(1)), hl, m.T))
		g.heapSet(g.cur, pf, fmt.Sprintf("(ite (= %s 0) %s (store %s %s (store (select %s %s) %s false)))", m.T, hp, hp, m.T, hp, m.T, k.T))
		return Val{}
	case "min", "max":
		x, y := g.val(c.Args[0]), g.val(c.Args[1])
		_, signed, ok := intInfo(c.Args[0].Type())
		if !ok || len(c.Args) != 2 {
			return g.unknown(v)
		}
		op := "<="
		if b.Name() == "max" {
			op = ">="
		}
		return g.define(v, fmt.Sprintf("(ite (%s %s %s) %s %s)", g.cmp(op, signed), x.T, y.T, x.T, y.T), x.S)
	case "print", "println":
		return Val{}
	case "recover":
		// panics are obligations of their own (or declared may-panic and not modelled): in the executions the
		// contracts speak about no panic is in flight, so recover() yields nil
		g.note("recover() modelled as returning nil (panicking executions are not modelled)")
		return g.define(v, "nil_iface", "Iface")
	case "ssa:wrapnilchk":
		x := g.val(c.Args[0])
		g.vals[v] = x
		return x
	}
	g.unsupported("builtin %s", b.Name())
	return Val{}
}

const unrollAppend = 16

func (g *FnGen) appendBuiltin(v ssa.Value, c *ssa.CallCommon) Val {
	s := g.val(c.Args[0])
	t := g.val(c.Args[1])
	el := c.Args[0].Type().Underlying().(*types.Slice).Elem()
	fam, sort := g.elemFam(el)
	h := g.heapGet(g.cur, fam, sort)
	var n string
	tIsStr := isString(c.Args[1].Type())
	if tIsStr {
		n = "(slen " + t.T + ")"
	} else {
		n = slen(t.T)
	}
	readT := func(k string) string {
		if tIsStr {
			return fmt.Sprintf("(sat %s %s)", t.T, k)
		}
		return fmt.Sprintf("(select (select %s %s) %s)", h, sref(t.T), g.add(soff(t.T), k))
	}
	// constant element count? (variadic call: slice of a fresh array)
	constN := -1
	if sl, ok := c.Args[1].(*ssa.Slice); ok && sl.Low == nil && sl.High == nil {
		if al, ok := sl.X.(*ssa.Alloc); ok {
			if arr, ok := al.Type().(*types.Pointer).Elem().Underlying().(*types.Array); ok {
				constN = int(arr.Len())
				if rec, isVA := g.varargs[g.val(al).T]; isVA {
					// elements remembered as values (see alloc): no heap read
					inner := readT
					readT = func(k string) string {
						if v, ok := rec[k]; ok {
							return v
						}
						return inner(k)
					}
				}
			}
		}
	}
	// t = x[:c] (or x[0:c]) with a constant c: exactly c elements (the slice bounds check has already been emitted)
	if sl, ok := c.Args[1].(*ssa.Slice); ok && constN < 0 && sl.High != nil && sl.Max == nil {
		if hc, ok := sl.High.(*ssa.Const); ok && hc.Value != nil {
			lowZero := sl.Low == nil
			if lc, ok := sl.Low.(*ssa.Const); ok && lc.Value != nil && lc.Int64() == 0 {
				lowZero = true
			}
			if _, isSl := sl.X.Type().Underlying().(*types.Slice); isSl && lowZero && hc.Int64() >= 0 && hc.Int64() <= unrollAppend {
				constN = int(hc.Int64())
			}
		}
	}
	newlen := g.add(slen(s.T), n)
	inplace := g.sle(newlen, scap(s.T))
	ref := g.allocRef(g.cur)
	ncap := g.fresh("cap", g.idx())
	g.assume(g.sle(newlen, ncap))
	g.assume(g.sle(ncap, g.ilit64(1<<maxLenLog)))
	z := g.ilit64(0)
	if constN >= 0 && constN <= unrollAppend && os.Getenv("GOVC_OLDAPPEND") == "" {
		// A constant number of appended elements: the result keeps the offset of s in BOTH outcomes (the positions of a fresh
		// backing array are ours to name), so the new row is the old row -- or, after reallocation, a fresh row agreeing with it on
		// the window of s -- with the new elements stored behind the window. No quantified definition of the row is needed when the
		// append is in place.
		idx := g.idx()
		rowSort := fmt.Sprintf("(Array %s %s)", idx, g.sortOf(el))
		r := g.define(v, fmt.Sprintf("(mk-slice (ite %s %s %s) %s %s (ite %s %s %s))", inplace, sref(s.T), ref, soff(s.T), newlen, inplace, scap(s.T), ncap), "Slice")
		oldrow := fmt.Sprintf("(select %s %s)", h, sref(s.T))
		fr := g.fresh("frow", rowSort)
		k := "ap!k"
		g.assume(fmt.Sprintf("(forall ((%s %s)) (! (=> (and %s %s) (= (select %s %s) (select %s %s))) :pattern ((select %s %s))))",
			k, idx, g.sle(soff(s.T), k), g.slt(k, g.add(soff(s.T), slen(s.T))), fr, k, oldrow, k, fr, k))
		rowT := fmt.Sprintf("(ite %s %s %s)", inplace, oldrow, fr)
		abase := g.add(soff(s.T), slen(s.T))
		for j := 0; j < constN; j++ {
			kj := g.ilit64(int64(j))
			rowT = fmt.Sprintf("(store %s %s %s)", rowT, g.add(abase, kj), readT(kj))
		}
		row := g.fresh("row", rowSort)
		g.assume(fmt.Sprintf("(= %s %s)", row, rowT))
		g.loopFrameCheck(fam, sref(r.T), token.NoPos)
		g.heapSet(g.cur, fam, fmt.Sprintf("(store %s %s %s)", h, sref(r.T), row))
		g.assume(fmt.Sprintf("(= (select %s %s) %s)", g.heapGet(g.cur, fam, sort), sref(r.T), row))
		if g.fc.HasAssigns {
			g.note("append in place writes beyond len(s) of the backing array; not checked against the assigns clause")
		}
		return r
	}
	r := g.define(v, fmt.Sprintf("(ite %s (mk-slice %s %s %s %s) (mk-slice %s %s %s %s))", inplace,
		sref(s.T), soff(s.T), newlen, scap(s.T), ref, z, newlen, ncap), "Slice")
	row := g.fresh("row", fmt.Sprintf("(Array %s %s)", g.idx(), g.sortOf(el)))
	idx := g.idx()
	k := "ap!k"
	// prefix (absolute index j into the result's backing array)
	base := soff(r.T)
	g.assume(fmt.Sprintf("(forall ((%s %s)) (! (=> (and %s %s) (= (select %s %s) (select (select %s %s) %s))) :pattern ((select %s %s))))",
		k, idx, g.sle(base, k), g.slt(k, g.add(base, slen(s.T))), row, k, h, sref(s.T), g.add(g.sub(k, base), soff(s.T)), row, k))
	// the same fact triggered from reads of the old array (m = index into s's backing array)
	oldrow := fmt.Sprintf("(select %s %s)", h, sref(s.T))
	g.assume(fmt.Sprintf("(forall ((%s %s)) (! (=> (and %s %s) (= (select %s %s) (select %s %s))) :pattern ((select %s %s))))",
		k, idx, g.sle(soff(s.T), k), g.slt(k, g.add(soff(s.T), slen(s.T))), row, g.add(g.sub(k, soff(s.T)), base), oldrow, k, oldrow, k))
	// appended elements
	abase := g.add(base, slen(s.T))
	if constN >= 0 && constN <= unrollAppend {
		for j := 0; j < constN; j++ {
			kj := g.ilit64(int64(j))
			g.assume(fmt.Sprintf("(= (select %s %s) %s)", row, g.add(abase, kj), readT(kj)))
		}
	} else {
		g.assume(fmt.Sprintf("(forall ((%s %s)) (! (=> (and %s %s) (= (select %s %s) %s)) :pattern ((select %s %s))))",
			k, idx, g.sle(abase, k), g.slt(k, g.add(abase, n)), row, k, readT(g.sub(k, abase)), row, k))
		// the first few appended elements as ground facts (length prefixes and headers are read at constant offsets)
		for j := 0; j < 9; j++ {
			kj := g.ilit64(int64(j))
			g.assume(fmt.Sprintf("(=> %s (= (select %s %s) %s))", g.slt(kj, n), row, g.add(abase, kj), readT(kj)))
		}
		if !tIsStr && g.mode == "int" {
			// triggered from reads of the appended slice (m = index into t's backing array); int mode only: with bit-vector
			// index arithmetic this axiom and the previous one re-trigger each other (matching loop)
			trow := fmt.Sprintf("(select %s %s)", h, sref(t.T))
			g.assume(fmt.Sprintf("(forall ((%s %s)) (! (=> (and %s %s) (= (select %s %s) (select %s %s))) :pattern ((select %s %s))))",
				k, idx, g.sle(soff(t.T), k), g.slt(k, g.add(soff(t.T), n)), row, g.add(g.sub(k, soff(t.T)), abase), trow, k, trow, k))
		}
	}
	// in place: everything outside the appended window is unchanged
	g.assume(fmt.Sprintf("(=> %s (forall ((%s %s)) (! (=> (or %s %s) (= (select %s %s) (select (select %s %s) %s))) :pattern ((select %s %s)))))",
		inplace, k, idx, g.slt(k, g.add(soff(s.T), slen(s.T))), g.sle(g.add(soff(s.T), newlen), k), row, k, h, sref(s.T), k, row, k))
	g.loopFrameCheck(fam, sref(r.T), token.NoPos)
	g.heapSet(g.cur, fam, fmt.Sprintf("(store %s %s %s)", h, sref(r.T), row))
	// ground read-over-write fact: lets the E-matching patterns over `row` fire on reads through the new heap version
	if os.Getenv("GOVC_NOGROUND") == "" {
		g.assume(fmt.Sprintf("(= (select %s %s) %s)", g.heapGet(g.cur, fam, sort), sref(r.T), row))
	}
	if g.fc.HasAssigns {
		g.note("append in place writes beyond len(s) of the backing array; not checked against the assigns clause")
	}
	return r
}

func (g *FnGen) copyBuiltin(v ssa.Value, c *ssa.CallCommon, pos token.Pos) Val {
	d := g.val(c.Args[0])
	s := g.val(c.Args[1])
	el := c.Args[0].Type().Underlying().(*types.Slice).Elem()
	fam, sort := g.elemFam(el)
	h := g.heapGet(g.cur, fam, sort)
	sIsStr := isString(c.Args[1].Type())
	var sl string
	if sIsStr {
		sl = "(slen " + s.T + ")"
	} else {
		sl = slen(s.T)
	}
	n := g.fresh("copyn", g.idx())
	g.assume(fmt.Sprintf("(= %s (ite %s %s %s))", n, g.sle(slen(d.T), sl), slen(d.T), sl))
	if g.fc.HasAssigns {
		// frame: dst[0:n]
		a0 := g.heapGet(g.init, "$alloc", "Int")
		alts := []string{fmt.Sprintf("(>= %s %s)", sref(d.T), a0), fmt.Sprintf("(= %s %s)", n, g.ilit64(0))}
		env := g.entryEnv()
		for _, cl := range g.fc.Assigns {
			if sx, ok := cl.E.(*ESlice); ok {
				sv := env.tr(sx.X)
				if _, isSl := typeUnder(sv.GT).(*types.Slice); isSl {
					lo := g.ilit64(0)
					if sx.Lo != nil {
						lo = env.asIdx(env.tr(sx.Lo))
					}
					hi := slen(sv.T)
					if sx.Hi != nil {
						hi = env.asIdx(env.tr(sx.Hi))
					}
					alts = append(alts, fmt.Sprintf("(and (= %s %s) %s %s)", sref(sv.T), sref(d.T), g.sle(g.add(soff(sv.T), lo), soff(d.T)), g.sle(g.add(soff(d.T), n), g.add(soff(sv.T), hi))))
				}
			}
		}
		g.oblige("frame", g.ordName("frame/copy"), "(or "+strings.Join(alts, " ")+")", "copy destination inside the assigns clause", pos)
	}
	row := g.fresh("row", fmt.Sprintf("(Array %s %s)", g.idx(), g.sortOf(el)))
	k := "cp!k"
	idx := g.idx()
	var src string
	rel := g.sub(k, soff(d.T))
	if sIsStr {
		src = fmt.Sprintf("(sat %s %s)", s.T, rel)
	} else {
		src = fmt.Sprintf("(select (select %s %s) %s)", h, sref(s.T), g.add(soff(s.T), rel))
	}
	g.assume(fmt.Sprintf("(forall ((%s %s)) (! (=> (and %s %s) (= (select %s %s) %s)) :pattern ((select %s %s))))",
		k, idx, g.sle(soff(d.T), k), g.slt(k, g.add(soff(d.T), n)), row, k, src, row, k))
	g.assume(fmt.Sprintf("(forall ((%s %s)) (! (=> (or %s %s) (= (select %s %s) (select (select %s %s) %s))) :pattern ((select %s %s))))",
		k, idx, g.slt(k, soff(d.T)), g.sle(g.add(soff(d.T), n), k), row, k, h, sref(d.T), k, row, k))
	g.loopFrameCheck(fam, sref(d.T), pos)
	g.heapSet(g.cur, fam, fmt.Sprintf("(store %s %s %s)", h, sref(d.T), row))
	r := Val{T: n, S: g.idx(), GT: types.Typ[types.Int]}
	if v != nil {
		g.vals[v] = r
	}
	return r
}

// typeFrameFams: the heap families named by the type-level frame locations fieldsof(T) / elemsoftype(T).
func (g *FnGen) typeFrameFams(env *Env, kind string, arg Expr) []string {
	var ts string
	switch a := arg.(type) {
	case *EType:
		ts = a.T
	default:
		ts = exprString(a)
	}
	t := env.resolveType(ts)
	if kind == "elemsoftype" {
		fam, sort := g.elemFam(t)
		g.famInit(fam, sort)
		return []string{fam}
	}
	st, ok := t.Underlying().(*types.Struct)
	if !ok {
		g.unsupported("assigns: fieldsof(%s): not a struct type", ts)
	}
	var out []string
	for i := 0; i < st.NumFields(); i++ {
		fam, sort, _ := g.fieldFam(t, i)
		g.famInit(fam, sort)
		out = append(out, fam)
	}
	return out
}

// calleeFrameInclusion: the location loc of a callee's assigns clause (evaluated in env, the callee's pre-state) must lie
// inside the verified function's own assigns clause, or in an object allocated by this function.
func (g *FnGen) calleeFrameInclusion(env *Env, loc Expr, name string, pos token.Pos) {
	a0 := g.heapGet(g.init, "$alloc", "Int")
	own := g.entryEnv()
	covered := func(a *Addr, guard string) {
		alts := []string{fmt.Sprintf("(>= %s %s)", a.Ref, a0)}
		for _, c := range g.fc.Assigns {
			alts = append(alts, g.locCovers(own, c.E, a))
		}
		goal := "(or " + strings.Join(alts, " ") + ")"
		if guard != "" {
			goal = fmt.Sprintf("(=> %s %s)", guard, goal)
		}
		g.oblige("frame", name, goal, "callee's assigns location "+exprString(loc)+" stays inside the caller's assigns clause", pos)
	}
	switch l := loc.(type) {
	case *ESel:
		x := env.tr(l.X)
		p, ok := typeUnder(x.GT).(*types.Pointer)
		if !ok {
			// field of a struct value stored in a field: the enclosing location
			g.calleeFrameInclusion(env, l.X, name, pos)
			return
		}
		if x.Addr != nil && x.Addr.Fam != "$struct" {
			covered(x.Addr, "")
			return
		}
		st, ok := p.Elem().Underlying().(*types.Struct)
		if !ok {
			g.unsupported("assigns: %s is not a struct pointer", exprString(l.X))
		}
		for i := 0; i < st.NumFields(); i++ {
			if st.Field(i).Name() == l.Name {
				fam, _, ft := g.fieldFam(p.Elem(), i)
				covered(&Addr{Fam: fam, Ref: x.T}, "")
				if _, isMap := ft.Underlying().(*types.Map); isMap {
					g.calleeMapInclusion(env.tr(loc), name+"/contents", loc, pos)
				}
				return
			}
		}
		g.unsupported("assigns: no field %s", l.Name)
	case *EIndex:
		g.calleeFrameInclusion(env, &ESlice{X: l.X, Lo: l.I, Hi: &EBin{Op: "+", X: l.I, Y: &EInt{V: bigOne}}}, name, pos)
	case *ESlice:
		sv := env.tr(l.X)
		st, ok := typeUnder(sv.GT).(*types.Slice)
		if !ok {
			g.unsupported("assigns: %s is not a slice", exprString(l.X))
		}
		fam, _ := g.elemFam(st.Elem())
		lo := g.ilit64(0)
		if l.Lo != nil {
			lo = env.asIdx(env.tr(l.Lo))
		}
		hi := slen(sv.T)
		if l.Hi != nil {
			hi = env.asIdx(env.tr(l.Hi))
		}
		j := g.fresh("fj", g.idx())
		covered(&Addr{Fam: fam, Ref: sref(sv.T), Idx: j}, fmt.Sprintf("(and %s %s)", g.sle(g.add(soff(sv.T), lo), j), g.slt(j, g.add(soff(sv.T), hi))))
	case *EIdent:
		if fam, ok := g.ghost[l.Name]; ok {
			covered(&Addr{Fam: fam, Ref: "0"}, "")
			return
		}
		if v, ok := env.vars[l.Name]; ok {
			switch u := typeUnder(v.GT).(type) {
			case *types.Slice:
				g.calleeFrameInclusion(env, &ESlice{X: l}, name, pos)
				return
			case *types.Map:
				g.calleeMapInclusion(v, name, loc, pos)
				return
			case *types.Pointer:
				if st, ok := u.Elem().Underlying().(*types.Struct); ok {
					for i := 0; i < st.NumFields(); i++ {
						fam, _, _ := g.fieldFam(u.Elem(), i)
						covered(&Addr{Fam: fam, Ref: v.T}, "")
					}
					return
				}
			}
		}
		if env.pkg != nil {
			if o := env.pkg.Scope().Lookup(l.Name); o != nil {
				if vv, ok := o.(*types.Var); ok {
					covered(&Addr{Fam: "Glob_" + sanitize(vv.Pkg().Name()+"."+vv.Name()), Ref: "0"}, "")
					return
				}
			}
		}
		g.unsupported("assigns: cannot interpret %s", l.Name)
	case *ECall:
		id, _ := l.Fn.(*EIdent)
		if id != nil && len(l.Args) == 1 && (id.Name == "fieldsof" || id.Name == "elemsoftype") {
			mine := map[string]bool{}
			for _, c := range g.fc.Assigns {
				if cc, ok := c.E.(*ECall); ok {
					if cid, _ := cc.Fn.(*EIdent); cid != nil && len(cc.Args) == 1 && (cid.Name == "fieldsof" || cid.Name == "elemsoftype") {
						for _, f := range g.typeFrameFams(own, cid.Name, cc.Args[0]) {
							mine[f] = true
						}
					}
				}
			}
			goal := "true"
			for _, f := range g.typeFrameFams(env, id.Name, l.Args[0]) {
				if !mine[f] {
					goal = "false"
				}
			}
			g.oblige("frame", name, goal, "callee's type-level frame "+exprString(loc)+" is named in the caller's assigns clause", pos)
			return
		}
		if id != nil && len(l.Args) == 1 && (id.Name == "mapof" || id.Name == "elemsof") {
			v := env.tr(l.Args[0])
			switch typeUnder(v.GT).(type) {
			case *types.Map:
				g.calleeMapInclusion(v, name, loc, pos)
			case *types.Slice:
				g.calleeFrameInclusion(env, &ESlice{X: l.Args[0]}, name, pos)
			}
			return
		}
		g.unsupported("assigns: cannot interpret %s", exprString(loc))
	default:
		g.unsupported("assigns: cannot interpret %s", exprString(loc))
	}
}

func (g *FnGen) calleeMapInclusion(m Val, name string, loc Expr, pos token.Pos) {
	a0 := g.heapGet(g.init, "$alloc", "Int")
	alts := []string{fmt.Sprintf("(>= %s %s)", m.T, a0)}
	own := g.entryEnv()
	for _, c := range g.fc.Assigns {
		func() {
			defer func() { recover() }()
			var e Expr = c.E
			if cc, ok := e.(*ECall); ok {
				if cid, _ := cc.Fn.(*EIdent); cid != nil && cid.Name == "mapof" && len(cc.Args) == 1 {
					e = cc.Args[0]
				}
			}
			v := own.tr(e)
			if _, ok := typeUnder(v.GT).(*types.Map); ok && v.S == "Int" {
				alts = append(alts, fmt.Sprintf("(= %s %s)", v.T, m.T))
			}
		}()
	}
	g.oblige("frame", name, "(or "+strings.Join(alts, " ")+")", "callee's assigns location "+exprString(loc)+" stays inside the caller's assigns clause", pos)
}
