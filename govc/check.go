package main

import (
	"encoding/json"
	"flag"
	"fmt"
	"os"
	"path/filepath"
	"sort"
	"strconv"
	"strings"
	"time"
)

type KnownFinding struct {
	Property   string `json:"property"`
	Obligation string `json:"obligation"`
	Status     string `json:"status"` // known | fixed
	What       string `json:"what"`
	Except     string `json:"except,omitempty"` // residual assumption over the function's parameters (input class NOT covered by the finding)
	Witness    string `json:"witness,omitempty"`
	Commit     string `json:"commit,omitempty"`
}

type KnownFile struct {
	Findings []KnownFinding `json:"findings"`
}

var verifRoot = "/verif"

func loadKnown() (*KnownFile, error) {
	b, err := os.ReadFile(filepath.Join(verifRoot, "known_findings.json"))
	if err != nil {
		if os.IsNotExist(err) {
			return &KnownFile{}, nil
		}
		return nil, err
	}
	var kf KnownFile
	if err := json.Unmarshal(b, &kf); err != nil {
		return nil, fmt.Errorf("known_findings.json: %v", err)
	}
	return &kf, nil
}

type fnReport struct {
	Name        string   `json:"name"`
	Mode        string   `json:"mode"`
	Obligations int      `json:"obligations"`
	Notes       []string `json:"assumptions_and_abstractions,omitempty"`
}

type oblReport struct {
	Name   string `json:"name"`
	Kind   string `json:"kind"`
	Status string `json:"status"`
	Solver string `json:"solver,omitempty"`
	Ms     int64  `json:"ms"`
	Pos    string `json:"pos,omitempty"`
	Bytes  int    `json:"smt_bytes,omitempty"`
}

func cmdCheck(args []string) int {
	fs := flag.NewFlagSet("check", flag.ExitOnError)
	prop := fs.String("prop", "", "property id")
	tier := fs.String("tier", "quick", "quick|thorough")
	repo := fs.String("repo", "/repo", "repository root")
	vroot := fs.String("verif", "/verif", "verif root")
	keep := fs.Bool("keep", false, "keep SMT work files")
	noReplay := fs.Bool("noreplay", false, "do not run replays")
	retCovers := fs.Bool("retcovers", true, "vacuity guard: every return point must be reachable under the assumptions (also in quick mode)")
	fs.Parse(args)
	repoRoot = *repo
	verifRoot = *vroot
	t0 := time.Now()
	seed := 0
	if s := os.Getenv("VERIF_SEED"); s != "" {
		seed, _ = strconv.Atoi(s)
	}
	engineErr := func(f string, a ...interface{}) int {
		fmt.Printf("ENGINE-ERROR property=%s %s\n", *prop, fmt.Sprintf(f, a...))
		return 2
	}
	contracts, err := loadContracts()
	if err != nil {
		return engineErr("contracts: %v", err)
	}
	known, err := loadKnown()
	if err != nil {
		return engineErr("%v", err)
	}
	// which packages declare the property
	type target struct {
		pc *PkgContracts
		pd PropDecl
	}
	var targets []target
	var pkgPaths []string
	for _, pp := range sortedPkgPaths(contracts) {
		pc := contracts[pp]
		for _, pd := range pc.Props {
			if pd.ID == *prop {
				targets = append(targets, target{pc, pd})
				pkgPaths = append(pkgPaths, pp)
			}
		}
	}
	// type-level frame declarations (`immutable Cxx: ...`) for this property
	type immTarget struct {
		pc *PkgContracts
		im Immutable
	}
	var immTargets []immTarget
	for _, pp := range sortedPkgPaths(contracts) {
		pc := contracts[pp]
		for _, im := range pc.Immut {
			if im.Prop == *prop {
				immTargets = append(immTargets, immTarget{pc, im})
				pkgPaths = append(pkgPaths, pp)
				for _, rel := range im.Pkgs {
					pkgPaths = append(pkgPaths, modulePath+"/"+rel)
				}
			}
		}
	}
	if len(targets) == 0 && len(immTargets) == 0 {
		return engineErr("no contract file declares property %s", *prop)
	}
	// de-duplicate package paths
	{
		seen := map[string]bool{}
		var uniq []string
		for _, pp := range pkgPaths {
			if !seen[pp] {
				seen[pp] = true
				uniq = append(uniq, pp)
			}
		}
		pkgPaths = uniq
	}
	prog, err := LoadProg(pkgPaths, contracts)
	if err != nil {
		return engineErr("load: %v", err)
	}
	loadS := time.Since(t0).Seconds()
	workdir := filepath.Join(verifRoot, "work", *prop)
	os.RemoveAll(workdir)
	os.MkdirAll(workdir, 0o755)
	if !*keep {
		defer os.RemoveAll(workdir)
	}
	replayDir := filepath.Join(verifRoot, "replays", *prop)
	os.RemoveAll(replayDir)

	var gens []*FnGen
	var all []*Oblig
	var untranslatable []*Oblig
	var fnReports []fnReport
	notes := map[string]bool{}
	for _, t := range targets {
		sp := prog.ssaPkgs[t.pc.PkgPath]
		for _, name := range t.pd.Funcs {
			fc := t.pc.Funcs[name]
			if fc == nil || fc.Kind != "func" {
				return engineErr("property lists %s but %s has no func contract for it", name, t.pc.File)
			}
			f := prog.findFunc(sp, name)
			if f == nil {
				return engineErr("function %s.%s not found in the current tree", t.pc.PkgPath, name)
			}
			gs, err := GenFuncAll(prog, f, fc, t.pc)
			if err != nil {
				// The function is under contract and its current body cannot be translated (a construct outside the verifier's
				// subset, a loop without invariant that the contract does not know, a contract clause naming a vanished local):
				// every obligation of the function is undischarged on this tree. Reported as ONE failed obligation of the property
				// (no model, hence no-failing-input-found); on the unchanged tree this never happens for a claimed property.
				o := &Oblig{Name: t.pc.PkgPath[strings.LastIndex(t.pc.PkgPath, "/")+1:] + "." + name + "/translation", Kind: "translation",
					Fn: name, Status: "undischarged", Clause: "the function's body is inside the verifier's subset and matches its contract",
					Output: err.Error(), PkgPath: t.pc.PkgPath}
				untranslatable = append(untranslatable, o)
				continue
			}
			for _, g := range gs {
				if len(g.obls) == 0 {
					return engineErr("function %s generated no obligations (vacuous contract)", g.fname)
				}
				gens = append(gens, g)
				all = append(all, g.obls...)
				ns := sortedKeys(g.notes)
				for _, n := range ns {
					notes[n] = true
				}
				fnReports = append(fnReports, fnReport{Name: g.fname, Mode: g.mode, Obligations: len(g.obls), Notes: ns})
			}
		}
		for _, ln := range t.pd.Lemmas {
			lg, err := GenLemma(prog, t.pc, ln)
			if err != nil {
				return engineErr("lemma %s: %v", ln, err)
			}
			gens = append(gens, lg)
			all = append(all, lg.obls...)
			fnReports = append(fnReports, fnReport{Name: lg.fname, Mode: lg.mode, Obligations: len(lg.obls)})
		}
	}
	timeout, retry := 10, 30
	useAll := false
	if *tier == "thorough" {
		timeout, retry = 120, 120
		useAll = true
	}
	// known findings: residual obligations
	knownBy := map[string]*KnownFinding{}
	for i := range known.Findings {
		k := &known.Findings[i]
		if k.Property == *prop && k.Status == "known" {
			knownBy[k.Obligation] = k
		}
	}
	var residuals []*Oblig
	residualOf := map[*Oblig]*Oblig{}
	for _, o := range all {
		if _, ok := knownBy[o.Name]; ok {
			o.Budget = 4
		}
		if k, ok := knownBy[o.Name]; ok && k.Except != "" {
			r, err := o.gen.residual(o, k.Except)
			if err != nil {
				return engineErr("known finding %s: %v", k.Obligation, err)
			}
			residuals = append(residuals, r)
			residualOf[o] = r
		}
	}
	// vacuity guards: cover queries
	covers := buildCovers(gens, *tier == "thorough" || *retCovers)
	tSolve := time.Now()
	workers := 6
	if s := os.Getenv("VERIF_WORKERS"); s != "" {
		if n, err := strconv.Atoi(s); err == nil && n > 0 && n <= 64 {
			workers = n
		}
	}
	discharge(append(append([]*Oblig{}, all...), residuals...), workdir, timeout, retry, useAll, workers)
	coverFail := runCovers(covers, workdir, workers)
	// type-level frame obligations are decided by the frame checker (no solver)
	nFrameFns := map[string]int{}
	for _, it := range immTargets {
		fo := FrameObligations(prog, it.pc, it.im, *prop)
		for _, o := range fo {
			nFrameFns[o.Fn]++
		}
		all = append(all, fo...)
	}
	if len(immTargets) > 0 {
		fnReports = append(fnReports, fnReport{Name: fmt.Sprintf("type-level frame: %d store sites in %d functions of the scanned packages", len(all)-countGen(all), len(nFrameFns)), Mode: "frame-checker", Obligations: len(all) - countGen(all)})
		if len(all)-countGen(all) == 0 {
			return engineErr("type-level frame generated no obligations")
		}
	}
	all = append(all, untranslatable...)
	solveS := time.Since(tSolve).Seconds()

	violations := 0
	discharged := 0
	counted := 0
	var knownPrinted []string
	var obReports []oblReport
	var samples []interface{}
	var solverMs int64
	for _, o := range all {
		solverMs += o.Ms
		obReports = append(obReports, oblReport{Name: o.Name, Kind: o.Kind, Status: o.Status, Solver: o.Solver, Ms: o.Ms, Pos: o.Pos, Bytes: o.Bytes})
		if k, isKnown := knownBy[o.Name]; isKnown {
			if o.Status == "discharged" {
				fmt.Printf("NOTE property=%s known finding no longer reproduces: %s\n", *prop, o.Name)
				counted++
				discharged++
				continue
			}
			line := fmt.Sprintf("KNOWN-FINDING: property=%s %s %s", *prop, o.Name, k.What)
			fmt.Println(line)
			knownPrinted = append(knownPrinted, line)
			if r := residualOf[o]; r != nil {
				counted++
				obReports = append(obReports, oblReport{Name: r.Name, Kind: "residual", Status: r.Status, Solver: r.Solver, Ms: r.Ms, Bytes: r.Bytes})
				if r.Status == "discharged" {
					discharged++
				} else {
					violations++
					reportViolation(r, *prop, replayDir, workdir, *noReplay)
				}
			}
			continue
		}
		counted++
		switch o.Status {
		case "discharged":
			discharged++
		case "engine-error":
			return engineErr("solvers disagree on %s: %s", o.Name, o.Output)
		default:
			violations++
			reportViolation(o, *prop, replayDir, workdir, *noReplay)
		}
	}
	// known findings that are not tied to a generated obligation (defects outside the verified kernel)
	have := map[string]bool{}
	for _, o := range all {
		have[o.Name] = true
	}
	for _, name := range sortedKnown(knownBy) {
		if !have[name] {
			line := fmt.Sprintf("KNOWN-FINDING: property=%s %s %s", *prop, name, knownBy[name].What)
			fmt.Println(line)
			knownPrinted = append(knownPrinted, line)
		}
	}
	sort.SliceStable(obReports, func(i, j int) bool { return obReports[i].Name < obReports[j].Name })
	for i, o := range all {
		if i%(len(all)/4+1) == 0 && len(samples) < 5 {
			samples = append(samples, map[string]interface{}{"obligation": o.Name, "kind": o.Kind, "clause": o.Clause, "pos": o.Pos,
				"status": o.Status, "answered_by": o.Solver, "ms": o.Ms, "smt_bytes": o.Bytes})
		}
	}
	trusted := []string{"go/packages + go/ssa (x/tools v0.29.0) lowering of the repository source", "govc encoding of SSA into SMT-LIB (this verifier)",
		"SMT solvers z3 4.8.12, z3-new 5.1.0, cvc5 1.0.3 (an obligation is discharged when one answers unsat and none answers sat)",
		"sequential semantics only: no concurrency is modelled", fmt.Sprintf("allocation sizes bounded by 2^%d (amd64 Go runtime)", maxLenLog)}
	verified := map[string]bool{}
	for _, fr := range fnReports {
		verified[fr.Name] = true
	}
	var assumedCallees []string
	for _, n := range sortedKeys(notes) {
		if strings.HasPrefix(n, "callee contract used: ") {
			callee := strings.TrimPrefix(n, "callee contract used: ")
			if verified[callee] {
				continue // verified in this run: not an assumption
			}
			n = "ASSUMED callee contract (not verified under this property): " + callee
			assumedCallees = append(assumedCallees, callee)
		}
		trusted = append(trusted, n)
	}
	ev := map[string]interface{}{
		"property_id": *prop, "tier": *tier, "seed": seed, "level": "proof",
		"coverage": map[string]interface{}{
			"obligations": counted, "discharged": discharged,
			"checker_cmd":              fmt.Sprintf("/verif/bin/govc check -prop %s -tier %s", *prop, *tier),
			"trusted_base":             trusted,
			"samples":                  samples,
			"functions_under_contract": fnReports,
			"per_obligation":           obReports,
			"known_findings":           knownPrinted,
			"assumed_callee_contracts": assumedCallees,
			"cover_queries":            len(covers),
			"back_ends":                "z3-new 5.1.0, z3 4.8.12, cvc5 1.0.3 raced per obligation (sliced script, then full script; budgets in CPU seconds); last stage adds z3-new seeds 1-3 / auto_config=false, z3 seed 1, cvc5 --enum-inst",
			"solver_time_s":            float64(solverMs) / 1000.0,
			"load_s":                   loadS, "solve_wall_s": solveS,
			"explanation": "obligations generated from the go/ssa form of the functions under contract in /repo's current working tree; every obligation is one SMT-LIB query",
		},
		"assumptions": trusted,
		"wall_s":      time.Since(t0).Seconds(),
		"violations":  violations,
	}
	os.MkdirAll(filepath.Join(verifRoot, "evidence"), 0o755)
	eb, _ := json.MarshalIndent(ev, "", " ")
	if err := os.WriteFile(filepath.Join(verifRoot, "evidence", *prop+".json"), eb, 0o644); err != nil {
		return engineErr("evidence: %v", err)
	}
	fmt.Printf("property=%s tier=%s functions=%d obligations=%d discharged=%d known=%d violations=%d covers=%d wall=%.1fs (load %.1fs, solve %.1fs)\n",
		*prop, *tier, len(fnReports), counted, discharged, len(knownPrinted), violations, len(covers), time.Since(t0).Seconds(), loadS, solveS)
	if violations > 0 {
		return 1
	}
	// vacuity guard (only meaningful when every obligation was discharged: after a failed obligation the code behind it is
	// cut off by the assumption of the failed assertion, and its return points are then legitimately unreachable)
	if len(coverFail) > 0 {
		return engineErr("vacuity: %s", strings.Join(coverFail, "; "))
	}
	return 0
}

func countGen(obls []*Oblig) int {
	n := 0
	for _, o := range obls {
		if o.gen != nil {
			n++
		}
	}
	return n
}

func sortedKnown(m map[string]*KnownFinding) []string {
	var ks []string
	for k := range m {
		ks = append(ks, k)
	}
	sort.Strings(ks)
	return ks
}

func sortedPkgPaths(m map[string]*PkgContracts) []string {
	var ks []string
	for k := range m {
		ks = append(ks, k)
	}
	sort.Strings(ks)
	return ks
}

func reportViolation(o *Oblig, prop, replayDir, workdir string, noReplay bool) {
	os.MkdirAll(replayDir, 0o755)
	var rec *ReplayRecord
	if noReplay {
		rec = &ReplayRecord{Property: prop, Obligation: o.Name, Kind: o.Kind, Function: o.Fn, Clause: o.Clause, Pos: o.Pos, Status: o.Status,
			Solver: o.Solver, SolverOutput: truncate(o.Output, 4000), Verdict: "no-failing-input-found", Reason: "replay disabled"}
	} else {
		rec = replayOblig(o, prop, workdir)
	}
	path := filepath.Join(replayDir, sanitize(o.Name)+".json")
	b, _ := json.MarshalIndent(rec, "", " ")
	os.WriteFile(path, b, 0o644)
	suffix := ""
	if rec.Verdict != "fails-on-real-code" {
		suffix = " no-failing-input-found"
	}
	fmt.Printf("  failed obligation: %s [%s] at %s: %s (%s)\n", o.Name, o.Status, o.Pos, o.Clause, rec.Reason)
	fmt.Printf("VIOLATION property=%s replay=%s%s\n", prop, path, suffix)
}

// residual: the obligation re-generated under an extra assumption over the parameters.
func (g *FnGen) residual(o *Oblig, except string) (r *Oblig, err error) {
	defer func() {
		if rc := recover(); rc != nil {
			if u, ok := rc.(UnsupportedErr); ok {
				err = fmt.Errorf("%s", u.Msg)
				return
			}
			panic(rc)
		}
	}()
	e, perr := ParseExpr(except)
	if perr != nil {
		return nil, perr
	}
	env := g.entryEnv()
	t := env.trBool(e)
	c := *o
	c.Name = o.Name + "/residual"
	c.Extra = append(append([]string{}, o.Extra...), t)
	c.Status = ""
	c.Budget = 0
	return &c, nil
}

// deadReturns: return points unreachable under the contracts (listed in the evidence)
var deadReturns []string

type coverQ struct {
	name   string
	script string
}

func buildCovers(gens []*FnGen, thorough bool) []coverQ {
	var out []coverQ
	for _, g := range gens {
		for _, c := range g.covers {
			if !thorough && c.kind != "entry" {
				continue
			}
			out = append(out, coverQ{g.fname + "/cover/" + c.name, g.coverScript(c)})
		}
	}
	return out
}

// runCovers: the entry cover of a function must not be unsat (contradictory requires / assumptions), and not EVERY return
// point of a function may be unreachable (then everything it proves is vacuous). Single unreachable returns are dead code
// under the contracts (e.g. an error return that the preceding check excludes) and are only listed.
func runCovers(cs []coverQ, workdir string, workers int) []string {
	type res struct {
		name string
		bad  bool
	}
	ch := make(chan res, len(cs))
	sem := make(chan struct{}, workers)
	for _, c := range cs {
		c := c
		sem <- struct{}{}
		go func() {
			defer func() { <-sem }()
			f := filepath.Join(workdir, sanitize(c.name)+".smt2")
			os.WriteFile(f, []byte(c.script), 0o644)
			r := raceSolvers(f, 3, false)
			ch <- res{c.name, r.verdict == "unsat"}
		}()
	}
	var bad []string
	retAll := map[string]int{}
	retBad := map[string]int{}
	for range cs {
		r := <-ch
		i := strings.Index(r.name, "/cover/")
		fn, point := r.name[:i], r.name[i+len("/cover/"):]
		if strings.HasPrefix(point, "ret") {
			retAll[fn]++
			if r.bad {
				retBad[fn]++
				deadReturns = append(deadReturns, r.name)
			}
			continue
		}
		if r.bad {
			bad = append(bad, r.name+" is unsatisfiable (contradictory requires/assumptions)")
		}
	}
	for fn, n := range retAll {
		if n > 0 && retBad[fn] == n {
			bad = append(bad, fn+": no return point is reachable under the contracts (vacuous proof)")
		}
	}
	sort.Strings(bad)
	return bad
}
