package main

// Type-level frame conditions: `//@ immutable T1, T2 after F1, F2`.
// Every store site of the loaded packages is one obligation, decided syntactically on the SSA:
// outside the listed constructors no instruction may write a field of an immutable type, an element of a
// slice/array or an entry of a map loaded from such a field, or let the address of such a field escape
// into a call. Objects allocated in the same function (construction of a fresh value) are exempt.

import (
	"fmt"
	"go/types"
	"sort"
	"strings"

	"golang.org/x/tools/go/ssa"
)

type frameSite struct {
	fn    *ssa.Function
	instr ssa.Instruction
	what  string
	bad   bool
	why   string
}

func immutableSet(p *Prog, pc *PkgContracts, im Immutable) map[string]bool {
	set := map[string]bool{}
	tp := p.typesPkg(pc.PkgPath)
	for _, t := range im.Types {
		name := t
		if !strings.Contains(t, ".") && tp != nil {
			name = tp.Path() + "." + t
		}
		set[name] = true
	}
	return set
}

func namedOf(t types.Type) string {
	if pt, ok := t.(*types.Pointer); ok {
		t = pt.Elem()
	}
	if n, ok := t.(*types.Named); ok && n.Obj().Pkg() != nil {
		return n.Obj().Pkg().Path() + "." + n.Obj().Name()
	}
	return ""
}

func isFreshLocal(v ssa.Value) bool {
	switch x := v.(type) {
	case *ssa.Alloc:
		return true
	case *ssa.FieldAddr:
		return isFreshLocal(x.X)
	case *ssa.IndexAddr:
		return isFreshLocal(x.X)
	case *ssa.MakeSlice, *ssa.MakeMap:
		return true
	}
	return false
}

// immutableRoot: does the address / container value v lead into an object of an immutable type that was not
// allocated by this function? Returns a description.
func immutableRoot(v ssa.Value, imm map[string]bool, depth int) (string, bool) {
	if depth > 8 {
		return "", false
	}
	switch x := v.(type) {
	case *ssa.FieldAddr:
		n := namedOf(x.X.Type())
		if imm[n] && !isFreshLocal(x.X) {
			st := x.X.Type().Underlying().(*types.Pointer).Elem().Underlying().(*types.Struct)
			return fmt.Sprintf("field %s of %s", st.Field(x.Field).Name(), n), true
		}
		return immutableRoot(x.X, imm, depth+1)
	case *ssa.IndexAddr:
		return immutableRoot(x.X, imm, depth+1)
	case *ssa.UnOp: // load: a slice/map/pointer value read from a field
		return immutableRoot(x.X, imm, depth+1)
	case *ssa.Slice:
		return immutableRoot(x.X, imm, depth+1)
	case *ssa.Lookup:
		return immutableRoot(x.X, imm, depth+1)
	case *ssa.Extract:
		return immutableRoot(x.Tuple, imm, depth+1)
	case *ssa.TypeAssert:
		return immutableRoot(x.X, imm, depth+1)
	case *ssa.ChangeType:
		return immutableRoot(x.X, imm, depth+1)
	case *ssa.Call:
		// a slice / map / pointer handed out by a method of an immutable object (or of an interface of the same
		// package, e.g. router.Rule getters) is part of that object
		var recv types.Type
		if x.Call.IsInvoke() {
			recv = x.Call.Value.Type()
		} else if sig := x.Call.Signature(); sig != nil && sig.Recv() != nil && len(x.Call.Args) > 0 {
			recv = x.Call.Args[0].Type()
		}
		if recv != nil {
			n := namedOf(recv)
			if imm[n] {
				return "value returned by a method of " + n, true
			}
			if _, isIface := recv.Underlying().(*types.Interface); isIface && n != "" {
				pkg := n[:strings.LastIndex(n, ".")]
				for t := range imm {
					if strings.HasPrefix(t, pkg+".") {
						return "value returned by interface " + n + " of an immutable package", true
					}
				}
			}
		}
	case *ssa.Phi:
		for _, e := range x.Edges {
			if d, ok := immutableRoot(e, imm, depth+1); ok {
				return d, true
			}
		}
	}
	return "", false
}

func allFunctions(p *Prog) []*ssa.Function {
	seen := map[*ssa.Function]bool{}
	var out []*ssa.Function
	var visit func(f *ssa.Function)
	visit = func(f *ssa.Function) {
		if f == nil || seen[f] || len(f.Blocks) == 0 {
			return
		}
		seen[f] = true
		out = append(out, f)
		for _, a := range f.AnonFuncs {
			visit(a)
		}
	}
	var paths []string
	for pp := range p.ssaPkgs {
		paths = append(paths, pp)
	}
	sort.Strings(paths)
	for _, pp := range paths {
		sp := p.ssaPkgs[pp]
		var names []string
		for n := range sp.Members {
			names = append(names, n)
		}
		sort.Strings(names)
		for _, n := range names {
			switch x := sp.Members[n].(type) {
			case *ssa.Function:
				visit(x)
			case *ssa.Type:
				for _, t := range []types.Type{x.Type(), types.NewPointer(x.Type())} {
					ms := p.ssaProg.MethodSets.MethodSet(t)
					for i := 0; i < ms.Len(); i++ {
						f := p.ssaProg.MethodValue(ms.At(i))
						if f != nil && f.Pkg == sp && f.Synthetic == "" {
							visit(f)
						}
					}
				}
			}
		}
	}
	return out
}

// FrameObligations: one obligation per store site of the loaded packages for an `immutable` declaration.
func FrameObligations(p *Prog, pc *PkgContracts, im Immutable, prop string) []*Oblig {
	imm := immutableSet(p, pc, im)
	exempt := map[string]bool{}
	for _, f := range im.After {
		exempt[f] = true
	}
	var obls []*Oblig
	for _, fn := range allFunctions(p) {
		pkg := fn.Pkg
		if pkg == nil && fn.Parent() != nil {
			pkg = fn.Parent().Pkg
		}
		if pkg == nil {
			continue
		}
		rel := fn.RelString(pkg.Pkg)
		fname := pkg.Pkg.Name() + "." + rel
		// constructors (and their closures) are exempt
		base := rel
		if i := strings.Index(base, "$"); i >= 0 {
			base = base[:i]
		}
		if exempt[base] || exempt[rel] || exempt[pkg.Pkg.Name()+"."+base] {
			continue
		}
		k := 0
		add := func(ins ssa.Instruction, what string, root ssa.Value) {
			desc, bad := immutableRoot(root, imm, 0)
			o := &Oblig{Name: fmt.Sprintf("%s/frame/%s/%s#%d", prop, fname, what, k), Kind: "frame", Fn: fname,
				Clause: "no write to an immutable routing object outside its constructors", Solver: "frame-checker", PkgPath: pkg.Pkg.Path()}
			k++
			if ins.Pos().IsValid() {
				ps := p.fset.Position(ins.Pos())
				o.Pos = fmt.Sprintf("%s:%d", relPath(ps.Filename), ps.Line)
			}
			if bad {
				o.Status = "failed"
				o.Output = "writes " + desc
			} else {
				o.Status = "discharged"
			}
			obls = append(obls, o)
		}
		for _, b := range fn.Blocks {
			for _, ins := range b.Instrs {
				switch i := ins.(type) {
				case *ssa.Store:
					add(i, "store", i.Addr)
				case *ssa.MapUpdate:
					add(i, "mapupdate", i.Map)
				case *ssa.Call:
					if bi, ok := i.Call.Value.(*ssa.Builtin); ok {
						if bi.Name() == "delete" || bi.Name() == "copy" || bi.Name() == "clear" {
							add(i, bi.Name(), i.Call.Args[0])
						}
						continue
					}
					// address of an immutable field escaping into a call
					for _, a := range i.Call.Args {
						if fa, ok := a.(*ssa.FieldAddr); ok {
							if _, bad := immutableRoot(fa, imm, 0); bad {
								add(i, "escape", fa)
							}
						}
					}
				}
			}
		}
	}
	return obls
}
