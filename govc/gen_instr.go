package main

import (
	"fmt"
	"go/token"
	"go/types"
	"math/big"
	"os"
	"strings"

	"golang.org/x/tools/go/ssa"
)

func (g *FnGen) mapFams2(m *types.Map) (pfam, psort, vfam, vsort string) {
	key := typeKey(m.Key()) + "_" + typeKey(m.Elem())
	if len(key) > 70 {
		key = key[:50] + fmt.Sprintf("_h%d", hashStr(key))
	}
	ks := g.sortOf(m.Key())
	pfam = "MapP_" + key
	psort = fmt.Sprintf("(Array Int (Array %s Bool))", ks)
	vfam = "MapV_" + key
	vsort = fmt.Sprintf("(Array Int (Array %s %s))", ks, g.sortOf(m.Elem()))
	g.famInit(pfam, psort)
	g.famInit(vfam, vsort)
	return
}

func (g *FnGen) mapLenFam(m *types.Map) (string, string) {
	key := typeKey(m.Key()) + "_" + typeKey(m.Elem())
	if len(key) > 70 {
		key = key[:50] + fmt.Sprintf("_h%d", hashStr(key))
	}
	fam := "MapL_" + key
	sort := fmt.Sprintf("(Array Int %s)", g.idx())
	g.famInit(fam, sort)
	return fam, sort
}

func (g *FnGen) tagID(t types.Type) int {
	k := types.TypeString(t, nil)
	if id, ok := g.tagIDs[k]; ok {
		return id
	}
	id := len(g.tagIDs) + 1
	g.tagIDs[k] = id
	g.tagTypes[id] = t
	return id
}

func (g *FnGen) boxFn(t types.Type) string {
	n := "box_" + typeKey(t)
	if !g.declared[n] {
		g.declared[n] = true
		g.decls = append(g.decls, fmt.Sprintf("(declare-fun %s (%s) Iface)", n, g.sortOf(t)))
	}
	return n
}

func (g *FnGen) unboxFn(t types.Type) string {
	n := "unbox_" + typeKey(t)
	if !g.declared[n] {
		g.declared[n] = true
		g.decls = append(g.decls, fmt.Sprintf("(declare-fun %s (Iface) %s)", n, g.sortOf(t)))
	}
	return n
}

// define binds an SSA value to a fresh constant equal to term (keeps terms small, gives model names).
func (g *FnGen) define(v ssa.Value, term string, sort string) Val {
	n := g.fresh(g.valName(v), sort)
	g.assume(fmt.Sprintf("(= %s %s)", n, term))
	r := Val{T: n, S: sort, GT: v.Type()}
	g.vals[v] = r
	return r
}

func (g *FnGen) valName(v ssa.Value) string {
	return v.Name()
}

// unknown binds v to an unconstrained fresh constant with the type facts of its Go type.
func (g *FnGen) unknown(v ssa.Value) Val {
	r := g.unknownOf(v.Name(), v.Type())
	g.vals[v] = r
	return r
}

func (g *FnGen) unknownOf(name string, t types.Type) Val {
	if tup, ok := t.(*types.Tuple); ok {
		r := Val{S: "Tuple", GT: t}
		for i := 0; i < tup.Len(); i++ {
			r.Tuple = append(r.Tuple, g.unknownOf(fmt.Sprintf("%s.%d", name, i), tup.At(i).Type()))
		}
		return r
	}
	s := g.sortOf(t)
	n := g.fresh(name, s)
	r := Val{T: n, S: s, GT: t}
	g.assume(g.typeFacts(r, t))
	if _, isRef := t.Underlying().(*types.Pointer); isRef {
		g.assumeHere(fmt.Sprintf("(< %s %s)", n, g.heapGet(g.cur, "$alloc", "Int")))
	}
	if _, isRef := t.Underlying().(*types.Map); isRef {
		g.assumeHere(fmt.Sprintf("(< %s %s)", n, g.heapGet(g.cur, "$alloc", "Int")))
	}
	if _, isSl := t.Underlying().(*types.Slice); isSl {
		g.assumeHere(fmt.Sprintf("(< (s-ref %s) %s)", n, g.heapGet(g.cur, "$alloc", "Int")))
	}
	return r
}

func (g *FnGen) safety(sub string, goal, what string, pos token.Pos) {
	g.safetyX(sub, goal, what, pos, true)
}

// safetyX: exact = the operation panics exactly when goal is false (index, slice, nil, division ...), so execution
// continuing past it lets us assume goal. A callee's `may-panic when P` is NOT exact (it may or may not panic under P):
// nothing is assumed after the call (what a normal return guarantees belongs in the callee's ensures).
func (g *FnGen) safetyX(sub string, goal, what string, pos token.Pos, exact bool) {
	// may-panic clauses weaken every safety goal
	orig := goal
	for _, mp := range g.fc.MayPanic {
		env := g.entryEnv()
		goal = fmt.Sprintf("(or %s %s)", env.trBool(mp.E), goal)
	}
	g.oblige("safety", g.ordName("safety/"+sub), goal, what, pos)
	if len(g.fc.MayPanic) > 0 && exact {
		// execution continues past this point only when the operation did not panic
		g.assumeHere(orig)
	}
}

func (g *FnGen) instr(ins ssa.Instruction) {
	switch i := ins.(type) {
	case *ssa.DebugRef:
		return
	case *ssa.BinOp:
		g.binop(i)
	case *ssa.UnOp:
		g.unop(i)
	case *ssa.Convert:
		g.convert(i)
	case *ssa.ChangeType:
		x := g.val(i.X)
		x.GT = i.Type()
		g.vals[i] = x
	case *ssa.Call:
		r := g.call(i, &i.Call)
		g.vals[i] = r
	case *ssa.IndexAddr:
		g.indexAddr(i)
	case *ssa.FieldAddr:
		g.fieldAddr(i)
	case *ssa.Field:
		x := g.val(i.X)
		st := i.X.Type()
		ft := st.Underlying().(*types.Struct).Field(i.Field).Type()
		g.vals[i] = Val{T: fmt.Sprintf("(%s-f%d %s)", g.sortOf(st), i.Field, x.T), S: g.sortOf(ft), GT: ft}
	case *ssa.Index:
		x := g.val(i.X)
		idx := g.toIdx(g.val(i.Index))
		switch u := i.X.Type().Underlying().(type) {
		case *types.Array:
			g.safety("index", fmt.Sprintf("(and %s %s)", g.sle(g.ilit64(0), idx), g.slt(idx, g.ilit64(u.Len()))), "array index in range", i.Pos())
			g.vals[i] = Val{T: fmt.Sprintf("(select %s %s)", x.T, idx), S: g.sortOf(u.Elem()), GT: u.Elem()}
		default:
			g.unsupported("Index on %s", i.X.Type())
		}
	case *ssa.Store:
		a := g.addrOf(g.val(i.Addr))
		if a.Ref != "0" || !strings.HasPrefix(a.Fam, "Glob_") {
			g.nilCheck(a, i.Pos())
		}
		v := g.val(i.Val)
		if rec, isVA := g.varargs[a.Ref]; isVA && len(a.Path) == 0 && a.Idx != "" {
			rec[a.Idx] = v.T
			break
		}
		g.frameCheck(a, i.Pos())
		if a.Fam == "$struct" {
			st := a.rootType().Underlying().(*types.Struct)
			for k := 0; k < st.NumFields(); k++ {
				f, _, _ := g.fieldFam(a.rootType(), k)
				g.loopFrameCheck(f, a.Ref, i.Pos())
			}
		} else {
			g.loopFrameCheck(a.Fam, a.Ref, i.Pos())
		}
		g.store(g.cur, a, v.T)
	case *ssa.Slice:
		g.sliceInstr(i)
	case *ssa.Alloc:
		g.alloc(i)
	case *ssa.MakeSlice:
		g.makeSlice(i)
	case *ssa.MakeMap:
		ref := g.allocRef(g.cur)
		mt := i.Type().Underlying().(*types.Map)
		pf, ps, _, _ := g.mapFams2(mt)
		h := g.heapGet(g.cur, pf, ps)
		g.heapSet(g.cur, pf, fmt.Sprintf("(store %s %s ((as const (Array %s Bool)) false))", h, ref, g.sortOf(mt.Key())))
		lf, ls := g.mapLenFam(mt)
		g.heapSet(g.cur, lf, fmt.Sprintf("(store %s %s %s)", g.heapGet(g.cur, lf, ls), ref, g.ilit64(0)))
		g.vals[i] = Val{T: ref, S: "Int", GT: i.Type()}
	case *ssa.MakeChan:
		// a channel is an opaque fresh object (no channel operation is in the subset; only its identity is used)
		ref := g.allocRef(g.cur)
		g.note("make(chan): the channel is an opaque fresh reference (channel operations are outside the subset)")
		g.vals[i] = Val{T: ref, S: g.sortOf(i.Type()), GT: i.Type()}
	case *ssa.Extract:
		t := g.val(i.Tuple)
		if i.Index >= len(t.Tuple) {
			g.unsupported("extract from non-tuple")
		}
		g.vals[i] = t.Tuple[i.Index]
	case *ssa.Phi:
		g.phi(i)
	case *ssa.If, *ssa.Jump:
		g.terminator(ins)
	case *ssa.Return:
		g.ret(i)
	case *ssa.Panic:
		goal := "false"
		g.safety("panic", goal, "explicit panic unreachable", i.Pos())
	case *ssa.Lookup:
		g.lookup(i)
	case *ssa.MapUpdate:
		g.mapUpdate(i)
	case *ssa.MakeInterface:
		x := g.val(i.X)
		t := i.X.Type()
		b := fmt.Sprintf("(%s %s)", g.boxFn(t), x.T)
		r := g.define(i, b, "Iface")
		g.assume(fmt.Sprintf("(= (tagof %s) %d)", r.T, g.tagID(t)))
		g.assume(fmt.Sprintf("(= (%s %s) %s)", g.unboxFn(t), r.T, x.T))
	case *ssa.ChangeInterface:
		x := g.val(i.X)
		x.GT = i.Type()
		g.vals[i] = x
	case *ssa.TypeAssert:
		g.typeAssert(i)
	case *ssa.Range:
		g.rangeInstr(i)
	case *ssa.Next:
		g.nextInstr(i)
	case *ssa.Defer:
		g.deferInstr(i)
	case *ssa.RunDefers:
		g.runDefers(i)
	case *ssa.MakeClosure:
		fn := i.Fn.(*ssa.Function)
		r := g.funcVal(fn)
		r.GT = i.Type()
		var binds []Val
		for _, b := range i.Bindings {
			binds = append(binds, g.val(b))
		}
		r.Tuple = binds // captured values
		g.vals[i] = r
	case *ssa.Go:
		g.note("go statement: the spawned call is assumed not to write the locations named in this function's contract (" + i.Call.String() + ")")
	default:
		g.unsupported("instruction %T (%s)", ins, ins)
	}
}

func (g *FnGen) binop(i *ssa.BinOp) {
	x, y := g.val(i.X), g.val(i.Y)
	xt := i.X.Type()
	switch i.Op {
	case token.EQL, token.NEQ:
		var t string
		switch u := xt.Underlying().(type) {
		case *types.Slice:
			// only comparison with nil is legal
			o := x
			if c, ok := i.X.(*ssa.Const); ok && c.Value == nil {
				o = y
			}
			t = fmt.Sprintf("(= (s-ref %s) 0)", o.T)
		case *types.Basic:
			if u.Info()&types.IsFloat != 0 {
				t = fmt.Sprintf("(= %s %s)", x.T, y.T)
				break
			}
			t = fmt.Sprintf("(= %s %s)", x.T, y.T)
		default:
			t = fmt.Sprintf("(= %s %s)", x.T, y.T)
		}
		if i.Op == token.NEQ {
			t = "(not " + t + ")"
		}
		g.define(i, t, "Bool")
	case token.LSS, token.LEQ, token.GTR, token.GEQ:
		if _, signed, ok := intInfo(xt); ok {
			g.define(i, fmt.Sprintf("(%s %s %s)", g.cmp(i.Op.String(), signed), x.T, y.T), "Bool")
			return
		}
		if b, ok := xt.Underlying().(*types.Basic); ok && b.Info()&types.IsString != 0 {
			g.note("string ordering: uninterpreted strict total order str-lt")
			var t string
			switch i.Op {
			case token.LSS:
				t = fmt.Sprintf("(str-lt %s %s)", x.T, y.T)
			case token.GTR:
				t = fmt.Sprintf("(str-lt %s %s)", y.T, x.T)
			case token.LEQ:
				t = fmt.Sprintf("(not (str-lt %s %s))", y.T, x.T)
			default:
				t = fmt.Sprintf("(not (str-lt %s %s))", x.T, y.T)
			}
			g.define(i, t, "Bool")
			return
		}
		g.unknown(i) // floats
	case token.SHL, token.SHR:
		t := g.shift(i.Op, x, y, i.Type(), i.Pos())
		g.define(i, t, g.sortOf(i.Type()))
	case token.ADD:
		if b, ok := xt.Underlying().(*types.Basic); ok && b.Info()&types.IsString != 0 {
			g.concat(i, x, y)
			return
		}
		fallthrough
	default:
		if _, _, ok := intInfo(i.Type()); !ok {
			if b, ok := i.Type().Underlying().(*types.Basic); ok && b.Info()&types.IsBoolean != 0 {
				// & | on bools do not occur in SSA; be safe
				g.unsupported("boolean binop %s", i.Op)
			}
			g.unknown(i) // float arithmetic: unconstrained
			return
		}
		if i.Op == token.QUO || i.Op == token.REM {
			bits, _, _ := intInfo(i.Type())
			g.safety("div", fmt.Sprintf("(not (= %s %s))", y.T, g.ilit(big.NewInt(0), bits)), "divisor non-zero", i.Pos())
		}
		term, ovf := g.arith(i.Op, x, y, i.Type())
		if ovf != "" && !g.fc.NoOverflow {
			g.oblige("overflow", g.ordName("overflow/"+opName(i.Op)), ovf, fmt.Sprintf("%s %s %s stays within %s", i.X.Name(), i.Op, i.Y.Name(), i.Type()), i.Pos())
		} else if ovf != "" {
			// wrap-around semantics requested: reduce modulo
			bits, signed, _ := intInfo(i.Type())
			term = g.wrap(term, bits, signed)
		}
		g.define(i, term, g.sortOf(i.Type()))
	}
}

func (g *FnGen) wrap(term string, bits int, signed bool) string {
	m := new(big.Int).Lsh(big.NewInt(1), uint(bits))
	if !signed {
		return fmt.Sprintf("(mod %s %s)", term, m.String())
	}
	half := new(big.Int).Rsh(m, 1)
	return fmt.Sprintf("(let ((cv!m (mod %s %s))) (ite (>= cv!m %s) (- cv!m %s) cv!m))", term, m.String(), half.String(), m.String())
}

func opName(op token.Token) string {
	switch op {
	case token.ADD:
		return "add"
	case token.SUB:
		return "sub"
	case token.MUL:
		return "mul"
	case token.QUO:
		return "div"
	}
	return sanitize(op.String())
}

func (g *FnGen) concat(i *ssa.BinOp, x, y Val) {
	g.define(i, fmt.Sprintf("(str-cat %s %s)", x.T, y.T), "Str")
}

func (g *FnGen) unop(i *ssa.UnOp) {
	x := g.val(i.X)
	switch i.Op {
	case token.NOT:
		g.define(i, "(not "+x.T+")", "Bool")
	case token.SUB:
		bits, signed, ok := intInfo(i.Type())
		if !ok {
			g.unknown(i)
			return
		}
		if g.mode == "bv" {
			g.define(i, "(bvneg "+x.T+")", x.S)
			return
		}
		term := "(- " + x.T + ")"
		if !g.fc.NoOverflow {
			lo, hi := typeRange(bits, signed)
			g.oblige("overflow", g.ordName("overflow/neg"), fmt.Sprintf("(and (<= %s %s) (<= %s %s))", g.ilit(lo, bits), term, term, g.ilit(hi, bits)), "negation stays in range", i.Pos())
		} else {
			term = g.wrap(term, bits, signed)
		}
		g.define(i, term, x.S)
	case token.XOR:
		if g.mode == "bv" {
			g.define(i, "(bvnot "+x.T+")", x.S)
			return
		}
		bits, signed, _ := intInfo(i.Type())
		if signed {
			g.define(i, fmt.Sprintf("(- (- %s) 1)", x.T), x.S)
		} else {
			_, hi := typeRange(bits, false)
			g.define(i, fmt.Sprintf("(- %s %s)", hi.String(), x.T), x.S)
		}
	case token.MUL: // load
		a := g.addrOf(x)
		if !(a.Ref == "0" && strings.HasPrefix(a.Fam, "Glob_")) {
			g.nilCheck(a, i.Pos())
		}
		t := g.load(g.cur, a)
		r := g.define(i, t, g.sortOf(i.Type()))
		g.assumeHere(g.typeFacts(r, i.Type()))
		g.refFacts(r, i.Type())
	case token.ARROW:
		g.unsupported("channel receive")
	default:
		g.unsupported("unop %s", i.Op)
	}
}

// refFacts: a reference loaded from the heap was allocated earlier.
func (g *FnGen) refFacts(r Val, t types.Type) {
	al := g.heapGet(g.cur, "$alloc", "Int")
	switch t.Underlying().(type) {
	case *types.Pointer, *types.Map:
		g.assumeHere(fmt.Sprintf("(< %s %s)", r.T, al))
	case *types.Slice:
		g.assumeHere(fmt.Sprintf("(< (s-ref %s) %s)", r.T, al))
	}
}

func (g *FnGen) nilCheck(a *Addr, pos token.Pos) {
	if strings.HasPrefix(a.Ref, "ref!") {
		return // freshly allocated
	}
	if strings.HasPrefix(a.Ref, "(s-ref ") {
		return // element of a slice: the index-in-range obligation implies non-nil (ref = 0 ==> cap = 0)
	}
	g.safety("nil", fmt.Sprintf("(not (= %s 0))", a.Ref), "nil dereference", pos)
}

func (g *FnGen) convert(i *ssa.Convert) {
	x := g.val(i.X)
	from, to := i.X.Type(), i.Type()
	_, _, fi := intInfo(from)
	_, _, ti := intInfo(to)
	switch {
	case fi && ti:
		r := g.convertInt(x, from, to)
		g.define(i, r.T, r.S)
	case isString(to) && isByteSlice(from):
		r := g.unknown(i)
		g.assume(fmt.Sprintf("(= (slen %s) %s)", r.T, slen(x.T)))
		k := "cv!k"
		g.assume(fmt.Sprintf("(forall ((%s %s)) (! (=> (and %s %s) (= (sat %s %s) %s)) :pattern ((sat %s %s))))",
			k, g.idx(), g.sle(g.ilit64(0), k), g.slt(k, slen(x.T)), r.T, k, g.elemRead(g.cur, types.Typ[types.Uint8], x.T, k), r.T, k))
	case isByteSlice(to) && isString(from):
		ref := g.allocRef(g.cur)
		n := "(slen " + x.T + ")"
		z := g.ilit64(0)
		r := g.define(i, fmt.Sprintf("(mk-slice %s %s %s %s)", ref, z, n, n), "Slice")
		fam, sort := g.elemFam(types.Typ[types.Uint8])
		h := g.heapGet(g.cur, fam, sort)
		row := g.fresh("row", fmt.Sprintf("(Array %s %s)", g.idx(), g.isort(8)))
		k := "cv!k"
		g.assume(fmt.Sprintf("(forall ((%s %s)) (! (=> (and %s %s) (= (select %s %s) (sat %s %s))) :pattern ((select %s %s))))",
			k, g.idx(), g.sle(z, k), g.slt(k, n), row, k, x.T, k, row, k))
		g.heapSet(g.cur, fam, fmt.Sprintf("(store %s %s %s)", h, ref, row))
		_ = r
	case isString(to) && fi:
		// string(x) for an integer x: the UTF-8 encoding of code point x -- an injective function; one byte for ASCII
		xt := x.T
		if g.mode == "bv" {
			xt = g.convertInt(x, from, types.Typ[types.Int64]).T
		}
		g.define(i, g.runeStr(xt), "Str")
	default:
		if isFloat(from) && !isFloat(to) {
			if _, _, ok := intInfo(to); ok {
				// float -> integer: a deterministic (uninterpreted) function of the float value, within the range of the target type
				r := g.define(i, g.floatToInt(x.T, to), g.sortOf(to))
				g.assumeHere(g.typeFacts(r, to))
				return
			}
		}
		if isFloat(to) || isFloat(from) {
			g.unknown(i)
			return
		}
		if sl, ok := to.Underlying().(*types.Slice); ok && isString(from) {
			if b, isB := sl.Elem().Underlying().(*types.Basic); isB && b.Kind() == types.Int32 {
				// []rune(s): a fresh slice holding the rune sequence of s (rune-len / rune-at: uninterpreted decoding)
				ref := g.allocRef(g.cur)
				n := "(rune-len " + x.T + ")"
				z := g.ilit64(0)
				g.assume(fmt.Sprintf("(and %s %s)", g.sle(z, n), g.sle(n, "(slen "+x.T+")")))
				g.define(i, fmt.Sprintf("(mk-slice %s %s %s %s)", ref, z, n, n), "Slice")
				fam, sort := g.elemFam(sl.Elem())
				h := g.heapGet(g.cur, fam, sort)
				row := g.fresh("row", fmt.Sprintf("(Array %s %s)", g.idx(), g.isort(32)))
				k := "cv!k"
				rv := Val{T: fmt.Sprintf("(rune-at %s %s)", x.T, k), S: g.isort(32), GT: sl.Elem()}
				g.assume(fmt.Sprintf("(forall ((%s %s)) (! (=> (and %s %s) (and (= (select %s %s) %s) %s)) :pattern ((select %s %s))))",
					k, g.idx(), g.sle(z, k), g.slt(k, n), row, k, rv.T, g.runeRange(rv.T), row, k))
				g.heapSet(g.cur, fam, fmt.Sprintf("(store %s %s %s)", h, ref, row))
				g.note("[]rune(string): the rune sequence of a string is uninterpreted (UTF-8 decoding is not modelled)")
				return
			}
		}
		if _, ok := to.Underlying().(*types.Slice); ok {
			// []rune(string) etc.
			g.note("conversion " + from.String() + " -> " + to.String() + " treated as unknown fresh value")
			g.unknown(i)
			return
		}
		if isString(to) {
			g.note("conversion " + from.String() + " -> string treated as unknown value")
			g.unknown(i)
			return
		}
		if to.Underlying() == from.Underlying() || g.sortOf(to) == g.sortOf(from) {
			x.GT = to
			g.vals[i] = x
			return
		}
		g.unsupported("convert %s -> %s", from, to)
	}
}

func isString(t types.Type) bool {
	b, ok := t.Underlying().(*types.Basic)
	return ok && b.Info()&types.IsString != 0
}
func isFloat(t types.Type) bool {
	b, ok := t.Underlying().(*types.Basic)
	return ok && b.Info()&(types.IsFloat|types.IsComplex) != 0
}
func isByteSlice(t types.Type) bool {
	s, ok := t.Underlying().(*types.Slice)
	if !ok {
		return false
	}
	b, ok := s.Elem().Underlying().(*types.Basic)
	return ok && b.Kind() == types.Uint8
}

func (g *FnGen) indexAddr(i *ssa.IndexAddr) {
	x := g.val(i.X)
	idx := g.toIdx(g.val(i.Index))
	z := g.ilit64(0)
	switch u := i.X.Type().Underlying().(type) {
	case *types.Slice:
		g.safety("index", fmt.Sprintf("(and %s %s)", g.sle(z, idx), g.slt(idx, slen(x.T))), "slice index in range", i.Pos())
		fam, sort := g.elemFam(u.Elem())
		g.famInit(fam, sort)
		g.vals[i] = Val{T: g.interiorPtr(), S: "Int", GT: i.Type(), Addr: &Addr{Fam: fam, Ref: sref(x.T), Idx: g.add(soff(x.T), idx), T: u.Elem()}}
	case *types.Pointer:
		arr := u.Elem().Underlying().(*types.Array)
		g.safety("index", fmt.Sprintf("(and %s %s)", g.sle(z, idx), g.slt(idx, g.ilit64(arr.Len()))), "array index in range", i.Pos())
		if x.Addr != nil && (len(x.Addr.Path) > 0 || !strings.HasPrefix(x.Addr.Fam, "Elem_")) {
			// pointer to an array stored inside a struct/cell: path step
			na := *x.Addr
			na.Path = append(append([]pathStep{}, x.Addr.Path...), pathStep{field: -1, st: x.Addr.T, arrIdx: idx, elemT: arr.Elem()})
			if len(x.Addr.Path) == 0 {
				// root holds the array value itself
			}
			na.T = arr.Elem()
			g.vals[i] = Val{T: g.interiorPtr(), S: "Int", GT: i.Type(), Addr: &na}
			return
		}
		fam, sort := g.elemFam(arr.Elem())
		g.famInit(fam, sort)
		ref := x.T
		if x.Addr != nil {
			ref = x.Addr.Ref
		}
		g.vals[i] = Val{T: g.interiorPtr(), S: "Int", GT: i.Type(), Addr: &Addr{Fam: fam, Ref: ref, Idx: idx, T: arr.Elem()}}
	default:
		g.unsupported("IndexAddr on %s", i.X.Type())
	}
}

func (g *FnGen) fieldAddr(i *ssa.FieldAddr) {
	x := g.val(i.X)
	st := i.X.Type().Underlying().(*types.Pointer).Elem()
	ft := st.Underlying().(*types.Struct).Field(i.Field).Type()
	if x.Addr != nil && x.Addr.Fam != "$struct" {
		// nested: x points at a struct value stored at an address
		na := *x.Addr
		na.Path = append(append([]pathStep{}, x.Addr.Path...), pathStep{field: i.Field, st: st})
		na.T = ft
		g.vals[i] = Val{T: g.interiorPtr(), S: "Int", GT: i.Type(), Addr: &na}
		return
	}
	ref := x.T
	if x.Addr != nil {
		ref = x.Addr.Ref
	}
	fam, sort, _ := g.fieldFam(st, i.Field)
	g.famInit(fam, sort)
	g.vals[i] = Val{T: g.interiorPtr(), S: "Int", GT: i.Type(), Addr: &Addr{Fam: fam, Ref: ref, T: ft}}
}

func (g *FnGen) alloc(i *ssa.Alloc) {
	ref := g.allocRef(g.cur)
	el := i.Type().(*types.Pointer).Elem()
	v := Val{T: ref, S: "Int", GT: i.Type()}
	switch u := el.Underlying().(type) {
	case *types.Struct:
		v.Addr = &Addr{Fam: "$struct", Ref: ref, T: el}
		g.writeRoot(g.cur, v.Addr, el, g.zero(el).T)
	case *types.Array:
		fam, sort := g.elemFam(u.Elem())
		g.famInit(fam, sort)
		v.Addr = &Addr{Fam: fam, Ref: ref, T: el}
		if i.Comment == "varargs" && os.Getenv("GOVC_NOVARARGS") == "" {
			// the temporary array of a variadic call (append(s, x, y), f(args...)): its elements are remembered as values
			// and handed to append directly; the heap is not written (keeps the heap versions of append-heavy code small)
			if g.varargs == nil {
				g.varargs = map[string]map[string]string{}
			}
			g.varargs[ref] = map[string]string{}
			g.vals[i] = v
			return
		}
		h := g.heapGet(g.cur, fam, sort)
		g.heapSet(g.cur, fam, fmt.Sprintf("(store %s %s %s)", h, ref, g.zero(el).T))
	default:
		fam, sort := g.cellFam(el)
		g.famInit(fam, sort)
		v.Addr = &Addr{Fam: fam, Ref: ref, T: el}
		h := g.heapGet(g.cur, fam, sort)
		g.heapSet(g.cur, fam, fmt.Sprintf("(store %s %s %s)", h, ref, g.zero(el).T))
	}
	g.vals[i] = v
}

func (g *FnGen) makeSlice(i *ssa.MakeSlice) {
	n := g.toIdx(g.val(i.Len))
	c := g.toIdx(g.val(i.Cap))
	z := g.ilit64(0)
	g.safety("makeslice", fmt.Sprintf("(and %s %s)", g.sle(z, n), g.sle(n, c)), "make: 0 <= len <= cap", i.Pos())
	ref := g.allocRef(g.cur)
	el := i.Type().Underlying().(*types.Slice).Elem()
	fam, sort := g.elemFam(el)
	h := g.heapGet(g.cur, fam, sort)
	g.heapSet(g.cur, fam, fmt.Sprintf("(store %s %s %s)", h, ref, g.constArray(el)))
	g.define(i, fmt.Sprintf("(mk-slice %s %s %s %s)", ref, z, n, c), "Slice")
}

func (g *FnGen) sliceInstr(i *ssa.Slice) {
	x := g.val(i.X)
	z := g.ilit64(0)
	lo := z
	if i.Low != nil {
		lo = g.toIdx(g.val(i.Low))
	}
	switch u := i.X.Type().Underlying().(type) {
	case *types.Slice:
		hi := slen(x.T)
		if i.High != nil {
			hi = g.toIdx(g.val(i.High))
		}
		mx := scap(x.T)
		if i.Max != nil {
			mx = g.toIdx(g.val(i.Max))
			g.safety("slice", fmt.Sprintf("(and %s %s %s %s)", g.sle(z, lo), g.sle(lo, hi), g.sle(hi, mx), g.sle(mx, scap(x.T))), "slice bounds in range", i.Pos())
		} else {
			g.safety("slice", fmt.Sprintf("(and %s %s %s)", g.sle(z, lo), g.sle(lo, hi), g.sle(hi, scap(x.T))), "slice bounds in range", i.Pos())
		}
		g.define(i, fmt.Sprintf("(mk-slice %s %s %s %s)", sref(x.T), g.add(soff(x.T), lo), g.sub(hi, lo), g.sub(mx, lo)), "Slice")
	case *types.Basic: // string
		hi := "(slen " + x.T + ")"
		if i.High != nil {
			hi = g.toIdx(g.val(i.High))
		}
		g.safety("slice", fmt.Sprintf("(and %s %s %s)", g.sle(z, lo), g.sle(lo, hi), g.sle(hi, "(slen "+x.T+")")), "string slice bounds in range", i.Pos())
		g.define(i, fmt.Sprintf("(str-sub %s %s %s)", x.T, lo, hi), "Str")
	case *types.Pointer: // *array
		arr := u.Elem().Underlying().(*types.Array)
		n := g.ilit64(arr.Len())
		hi := n
		if i.High != nil {
			hi = g.toIdx(g.val(i.High))
		}
		g.safety("slice", fmt.Sprintf("(and %s %s %s)", g.sle(z, lo), g.sle(lo, hi), g.sle(hi, n)), "array slice bounds in range", i.Pos())
		ref := x.T
		if x.Addr != nil {
			if !strings.HasPrefix(x.Addr.Fam, "Elem_") || len(x.Addr.Path) > 0 {
				g.unsupported("slicing an array stored inside a struct")
			}
			ref = x.Addr.Ref
		}
		g.define(i, fmt.Sprintf("(mk-slice %s %s %s %s)", ref, lo, g.sub(hi, lo), g.sub(n, lo)), "Slice")
	default:
		g.unsupported("Slice of %s", i.X.Type())
	}
}

func (g *FnGen) lookup(i *ssa.Lookup) {
	x := g.val(i.X)
	switch u := i.X.Type().Underlying().(type) {
	case *types.Basic: // string index
		idx := g.toIdx(g.val(i.Index))
		g.safety("index", fmt.Sprintf("(and %s %s)", g.sle(g.ilit64(0), idx), g.slt(idx, "(slen "+x.T+")")), "string index in range", i.Pos())
		g.define(i, fmt.Sprintf("(sat %s %s)", x.T, idx), g.isort(8))
	case *types.Map:
		k := g.val(i.Index)
		pf, ps, vf, vs := g.mapFams2(u)
		present := fmt.Sprintf("(and (not (= %s 0)) (select (select %s %s) %s))", x.T, g.heapGet(g.cur, pf, ps), x.T, k.T)
		value := fmt.Sprintf("(ite %s (select (select %s %s) %s) %s)", present, g.heapGet(g.cur, vf, vs), x.T, k.T, g.zero(u.Elem()).T)
		if i.CommaOk {
			vv := g.fresh(i.Name()+".v", g.sortOf(u.Elem()))
			g.assume(fmt.Sprintf("(= %s %s)", vv, value))
			ok := g.fresh(i.Name()+".ok", "Bool")
			g.assume(fmt.Sprintf("(= %s %s)", ok, present))
			v0 := Val{T: vv, S: g.sortOf(u.Elem()), GT: u.Elem()}
			g.assumeHere(g.typeFacts(v0, u.Elem()))
			g.refFacts(v0, u.Elem())
			g.vals[i] = Val{S: "Tuple", GT: i.Type(), Tuple: []Val{v0, {T: ok, S: "Bool", GT: types.Typ[types.Bool]}}}
			return
		}
		r := g.define(i, value, g.sortOf(u.Elem()))
		g.assumeHere(g.typeFacts(r, u.Elem()))
		g.refFacts(r, u.Elem())
	default:
		g.unsupported("Lookup on %s", i.X.Type())
	}
}

func (g *FnGen) mapUpdate(i *ssa.MapUpdate) {
	m := g.val(i.Map)
	mt := i.Map.Type().Underlying().(*types.Map)
	k := g.val(i.Key)
	v := g.val(i.Value)
	g.safety("nilmap", fmt.Sprintf("(not (= %s 0))", m.T), "assignment to entry in nil map", i.Pos())
	g.frameCheckFam("map", m.T, i.Pos())
	pf, ps, vf, vs := g.mapFams2(mt)
	g.loopFrameCheck(pf, m.T, i.Pos())
	hp := g.heapGet(g.cur, pf, ps)
	hv := g.heapGet(g.cur, vf, vs)
	lf, ls := g.mapLenFam(mt)
	hl := g.heapGet(g.cur, lf, ls)
	one := g.ilit64(1)
	g.heapSet(g.cur, lf, fmt.Sprintf("(store %s %s (ite (select (select %s %s) %s) (select %s %s) %s))", hl, m.T, hp, m.T, k.T, hl, m.T, g.add(fmt.Sprintf("(select %s %s)", hl, m.T), one)))
	g.heapSet(g.cur, pf, fmt.Sprintf("(store %s %s (store (select %s %s) %s true))", hp, m.T, hp, m.T, k.T))
	g.heapSet(g.cur, vf, fmt.Sprintf("(store %s %s (store (select %s %s) %s %s))", hv, m.T, hv, m.T, k.T, v.T))
}

func (g *FnGen) typeAssert(i *ssa.TypeAssert) {
	x := g.val(i.X)
	at := i.AssertedType
	var ok, val string
	var vs string
	if _, isIface := at.Underlying().(*types.Interface); isIface {
		// interface-to-interface assertion: implements predicate over the tag
		p := "implements_" + typeKey(at)
		if !g.declared[p] {
			g.declared[p] = true
			g.decls = append(g.decls, fmt.Sprintf("(declare-fun %s (Int) Bool)", p))
			g.assume(fmt.Sprintf("(not (%s 0))", p))
		}
		// known concrete types
		g.implementsFacts(p, at)
		ok = fmt.Sprintf("(%s (tagof %s))", p, x.T)
		val = x.T
		vs = "Iface"
	} else {
		ok = fmt.Sprintf("(= (tagof %s) %d)", x.T, g.tagID(at))
		val = fmt.Sprintf("(%s %s)", g.unboxFn(at), x.T)
		vs = g.sortOf(at)
	}
	if i.CommaOk {
		okc := g.fresh(i.Name()+".ok", "Bool")
		g.assume(fmt.Sprintf("(= %s %s)", okc, ok))
		vc := g.fresh(i.Name()+".v", vs)
		g.assume(fmt.Sprintf("(= %s (ite %s %s %s))", vc, okc, val, g.zero(at).T))
		v0 := Val{T: vc, S: vs, GT: at}
		g.assumeHere(fmt.Sprintf("(=> %s %s)", okc, g.typeFacts(v0, at)))
		g.refFacts(v0, at) // a reference carried by an interface value was allocated before now
		g.vals[i] = Val{S: "Tuple", GT: i.Type(), Tuple: []Val{v0, {T: okc, S: "Bool", GT: types.Typ[types.Bool]}}}
		return
	}
	g.safety("typeassert", ok, "type assertion holds", i.Pos())
	r := g.define(i, val, vs)
	g.assumeHere(g.typeFacts(r, at))
	g.refFacts(r, at)
}

func (g *FnGen) implementsFacts(pred string, iface types.Type) {
	key := "implfacts:" + pred
	if g.declared[key] {
		return
	}
	// facts are (re)emitted lazily for all tags known at the end: see finishTags
	g.declared[key] = true
	g.implPreds = append(g.implPreds, implPred{pred, iface})
}

type implPred struct {
	pred  string
	iface types.Type
}

// ---------------------------------------------------------------- frames

// frameCheck emits a frame obligation for a store when the contract has an assigns clause.
func (g *FnGen) frameCheck(a *Addr, pos token.Pos) {
	if !g.fc.HasAssigns {
		return
	}
	if strings.HasPrefix(a.Ref, "ref!") {
		return
	}
	if strings.HasPrefix(a.Fam, "Glob_") && false {
		return
	}
	a0 := g.heapGet(g.init, "$alloc", "Int")
	alts := []string{fmt.Sprintf("(>= %s %s)", a.Ref, a0)}
	env := g.entryEnv()
	for _, c := range g.fc.Assigns {
		alts = append(alts, g.locCovers(env, c.E, a))
	}
	g.oblige("frame", g.ordName("frame/store"), "(or "+strings.Join(alts, " ")+")", "store stays inside the assigns clause", pos)
}

func (g *FnGen) frameCheckFam(kind, ref string, pos token.Pos) {
	if !g.fc.HasAssigns {
		return
	}
	if strings.HasPrefix(ref, "ref!") {
		return
	}
	a0 := g.heapGet(g.init, "$alloc", "Int")
	alts := []string{fmt.Sprintf("(>= %s %s)", ref, a0)}
	env := g.entryEnv()
	for _, c := range g.fc.Assigns {
		// a map location is named by the map expression itself
		func() {
			defer func() { recover() }()
			var ce Expr = c.E
			if cc, ok := ce.(*ECall); ok {
				if cid, _ := cc.Fn.(*EIdent); cid != nil && cid.Name == "mapof" && len(cc.Args) == 1 {
					ce = cc.Args[0]
				}
			}
			v := env.tr(ce)
			if _, ok := typeUnder(v.GT).(*types.Map); ok && v.S == "Int" {
				alts = append(alts, fmt.Sprintf("(= %s %s)", v.T, ref))
			}
		}()
	}
	g.oblige("frame", g.ordName("frame/"+kind), "(or "+strings.Join(alts, " ")+")", "update stays inside the assigns clause", pos)
}

// locCovers: condition under which the assigns location expression covers address a.
func (g *FnGen) locCovers(env *Env, loc Expr, a *Addr) string {
	switch l := loc.(type) {
	case *ESlice: // s[lo:hi]
		s := env.tr(l.X)
		st, ok := typeUnder(s.GT).(*types.Slice)
		if !ok {
			return "false"
		}
		fam, _ := g.elemFam(st.Elem())
		if fam != a.Fam || a.Idx == "" {
			return "false"
		}
		lo := g.ilit64(0)
		if l.Lo != nil {
			lo = env.asIdx(env.tr(l.Lo))
		}
		hi := slen(s.T)
		if l.Hi != nil {
			hi = env.asIdx(env.tr(l.Hi))
		}
		return fmt.Sprintf("(and (= %s %s) %s %s)", sref(s.T), a.Ref, g.sle(g.add(soff(s.T), lo), a.Idx), g.slt(a.Idx, g.add(soff(s.T), hi)))
	case *EIndex:
		return g.locCovers(env, &ESlice{X: l.X, Lo: l.I, Hi: &EBin{Op: "+", X: l.I, Y: &EInt{V: big.NewInt(1)}}}, a)
	case *ESel: // p.f
		x := env.tr(l.X)
		p, ok := typeUnder(x.GT).(*types.Pointer)
		if !ok {
			if _, isSt := typeUnder(x.GT).(*types.Struct); isSt {
				return g.locCovers(env, l.X, a) // s.f.g names (a part of) the location s.f
			}
			return "false"
		}
		st, ok := p.Elem().Underlying().(*types.Struct)
		if !ok {
			return "false"
		}
		for i := 0; i < st.NumFields(); i++ {
			if st.Field(i).Name() == l.Name {
				fam, _, _ := g.fieldFam(p.Elem(), i)
				if fam == a.Fam {
					return fmt.Sprintf("(= %s %s)", x.T, a.Ref)
				}
			}
		}
		return "false"
	case *EIdent:
		// ghost variable or global, or a whole slice value
		if fam, ok := g.ghost[l.Name]; ok && fam == a.Fam {
			return "true"
		}
		if v, ok := env.vars[l.Name]; ok {
			if _, isSl := typeUnder(v.GT).(*types.Slice); isSl {
				return g.locCovers(env, &ESlice{X: l}, a)
			}
		}
		if env.pkg != nil {
			if o := env.pkg.Scope().Lookup(l.Name); o != nil {
				if vv, ok := o.(*types.Var); ok {
					if "Glob_"+sanitize(vv.Pkg().Name()+"."+vv.Name()) == a.Fam {
						return "true"
					}
				}
			}
		}
		return "false"
	case *ECall:
		if id, _ := l.Fn.(*EIdent); id != nil && len(l.Args) == 1 && (id.Name == "fieldsof" || id.Name == "elemsoftype") {
			for _, fam := range g.typeFrameFams(env, id.Name, l.Args[0]) {
				if fam == a.Fam {
					return "true"
				}
			}
		}
		return "false"
	}
	return "false"
}

// interiorPtr: the (non-nil) value of an interior pointer (&x.f, &a[i]); only its address descriptor is used for memory access.
func (g *FnGen) interiorPtr() string {
	n := g.fresh("iptr", "Int")
	g.assume(fmt.Sprintf("(> %s 0)", n))
	return n
}

// floatToInt: Go's float -> integer conversion as an uninterpreted function per target type (deterministic; its value is not modelled).
func (g *FnGen) floatToInt(x string, to types.Type) string {
	fn := "f2i_" + sanitize(typeKey(to.Underlying()))
	if !g.declared[fn] {
		g.declared[fn] = true
		g.decls = append(g.decls, fmt.Sprintf("(declare-fun %s (F64) %s)", fn, g.sortOf(to)))
		g.note("float -> integer conversion modelled as an uninterpreted function of the float value")
	}
	return fmt.Sprintf("(%s %s)", fn, x)
}

// runeRange: a decoded rune is a Unicode code point (0 .. 0x10FFFF)
func (g *FnGen) runeRange(t string) string {
	if g.mode == "bv" {
		return fmt.Sprintf("(and (bvsle (_ bv0 32) %s) (bvsle %s (_ bv1114111 32)))", t, t)
	}
	return fmt.Sprintf("(and (<= 0 %s) (<= %s 1114111))", t, t)
}

// runeStr: string(x) of an integer value (uninterpreted, injective, single byte for 0 <= x < 128).
func (g *FnGen) runeStr(x string) string {
	if !g.declared["rune-str"] {
		g.declared["rune-str"] = true
		xs := g.isort(64)
		if g.mode == "int" {
			xs = "Int"
		}
		g.decls = append(g.decls, fmt.Sprintf("(declare-fun rune-str (%s) Str)", xs), fmt.Sprintf("(declare-fun rune-str-inv (Str) %s)", xs))
		lo, hi := "0", "128"
		lt, le := "<", "<="
		if g.mode == "bv" {
			lo, hi = g.ilit64(0), g.ilit64(128)
			lt, le = "bvslt", "bvsle"
		}
		ax := fmt.Sprintf("(forall ((rs!x %s)) (! (and (= (rune-str-inv (rune-str rs!x)) rs!x) (%s %s (slen (rune-str rs!x))) (=> (and (%s %s rs!x) (%s rs!x %s)) (and (= (slen (rune-str rs!x)) %s) (= (sat (rune-str rs!x) %s) ((_ extract 7 0) rs!x))))) :pattern ((rune-str rs!x))))",
			xs, le, g.ilit64(1), le, lo, lt, hi, g.ilit64(1), g.ilit64(0))
		if g.mode == "int" {
			ax = fmt.Sprintf("(forall ((rs!x Int)) (! (and (= (rune-str-inv (rune-str rs!x)) rs!x) (<= 1 (slen (rune-str rs!x))) (=> (and (<= 0 rs!x) (< rs!x 128)) (and (= (slen (rune-str rs!x)) 1) (= (sat (rune-str rs!x) 0) rs!x)))) :pattern ((rune-str rs!x))))")
		}
		g.assumes = append([]string{ax}, g.assumes...)
		g.shiftTags(1)
		for _, o := range g.obls {
			o.nAssume++
		}
		for i := range g.covers {
			g.covers[i].nAssume++
		}
	}
	return fmt.Sprintf("(rune-str %s)", x)
}
