package main

import (
	"flag"
	"fmt"
	"os"
	"sort"
	"strings"
	"time"
)

func main() {
	if len(os.Args) < 2 {
		fmt.Fprintln(os.Stderr, "usage: govc vc|check|replay|selftest ...")
		os.Exit(2)
	}
	switch os.Args[1] {
	case "vc":
		cmdVC(os.Args[2:])
	case "check":
		os.Exit(cmdCheck(os.Args[2:]))
	default:
		fmt.Fprintln(os.Stderr, "unknown command", os.Args[1])
		os.Exit(2)
	}
}

// cmdVC: development command: generate and discharge the obligations of functions of one package.
func cmdVC(args []string) {
	fs := flag.NewFlagSet("vc", flag.ExitOnError)
	pkg := fs.String("pkg", "", "package path (relative to module, e.g. mysql)")
	fn := fs.String("fn", "", "only this function (contract name)")
	verbose := fs.Bool("v", false, "verbose")
	timeout := fs.Int("t", 10, "solver timeout (s)")
	dump := fs.String("dump", "", "dump SMT of obligation whose name contains this")
	repo := fs.String("repo", "/repo", "repository root")
	only := fs.String("only", "", "discharge only obligations whose name contains this (development)")
	fs.Parse(args)
	repoRoot = *repo
	contracts, err := loadContracts()
	if err != nil {
		fmt.Fprintln(os.Stderr, "contracts:", err)
		os.Exit(2)
	}
	pp := modulePath + "/" + *pkg
	t0 := time.Now()
	prog, err := LoadProg([]string{pp}, contracts)
	if err != nil {
		fmt.Fprintln(os.Stderr, err)
		os.Exit(2)
	}
	fmt.Printf("loaded in %.1fs\n", time.Since(t0).Seconds())
	pc := contracts[pp]
	if pc == nil {
		fmt.Fprintln(os.Stderr, "no contract file for", pp)
		os.Exit(2)
	}
	sp := prog.ssaPkgs[pp]
	var all []*Oblig
	for _, name := range pc.Order {
		fc := pc.Funcs[name]
		if fc.Kind != "func" || (*fn != "" && name != *fn) {
			continue
		}
		f := prog.findFunc(sp, name)
		if f == nil {
			fmt.Printf("ENGINE-ERROR: function %s not found\n", name)
			continue
		}
		gs, err := GenFuncAll(prog, f, fc, pc)
		if err != nil {
			fmt.Printf("OUTSIDE-SUBSET: %v\n", err)
			continue
		}
		for _, g := range gs {
			if *verbose {
				for _, n := range sortedKeys(g.notes) {
					fmt.Printf("  note[%s]: %s\n", g.fname, n)
				}
			}
			all = append(all, g.obls...)
		}
	}
	if *only != "" {
		var sel []*Oblig
		for _, o := range all {
			if strings.Contains(o.Name, *only) {
				sel = append(sel, o)
			}
		}
		all = sel
	}
	t1 := time.Now()
	discharge(all, "/tmp/govc-work", *timeout, *timeout, false, 8)
	fmt.Printf("%d obligations, solved in %.1fs\n", len(all), time.Since(t1).Seconds())
	sort.SliceStable(all, func(i, j int) bool { return all[i].Status < all[j].Status })
	cnt := map[string]int{}
	for _, o := range all {
		cnt[o.Status]++
		if o.Status != "discharged" || *verbose {
			fmt.Printf("%-13s %-70s %-7s %5dms  %s  [%s]\n", o.Status, o.Name, o.Solver, o.Ms, o.Pos, o.Clause)
			if o.Status != "discharged" && o.Status != "failed" {
				fmt.Printf("      %s\n", strings.ReplaceAll(strings.TrimSpace(o.Output), "\n", " | "))
			}
		}
		if *dump != "" && strings.Contains(o.Name, *dump) {
			fmt.Println("SMT file:", o.SmtFile)
		}
	}
	fmt.Println(cnt)
}

