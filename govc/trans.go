package main

// Translation of contract expressions to SMT terms.

import (
	"fmt"
	"go/token"
	"go/types"
	"golang.org/x/tools/go/ssa"
	"math/big"
	"os"
	"strings"
)

type Env struct {
	g      *FnGen
	vars   map[string]Val
	cur    *State
	old    *State
	pkg    *types.Package
	pcs    []*PkgContracts // where to look up pure functions (callee's package first)
	inOld  bool
	depth  int
	lookup func(name string) (Val, bool) // extra resolver (locals)
	at     *ssa.BasicBlock               // block the expression is evaluated at (loop header for invariants)
	noAbs  bool                          // do not rewrite ranged quantifiers to absolute-index form
}

func (e *Env) child() *Env {
	n := *e
	n.vars = make(map[string]Val, len(e.vars)+2)
	for k, v := range e.vars {
		n.vars[k] = v
	}
	return &n
}

func (e *Env) fail(f string, a ...interface{}) {
	panic(UnsupportedErr{"contract: " + fmt.Sprintf(f, a...)})
}

func (e *Env) state() *State {
	if e.inOld && e.old != nil {
		return e.old
	}
	return e.cur
}

// resolveType resolves a type expression string in the env's package scope.
func (e *Env) resolveType(s string) types.Type {
	s = strings.TrimSpace(s)
	switch {
	case strings.HasPrefix(s, "[]"):
		return types.NewSlice(e.resolveType(s[2:]))
	case strings.HasPrefix(s, "*"):
		return types.NewPointer(e.resolveType(s[1:]))
	case strings.HasPrefix(s, "map["):
		depth := 0
		for i := 3; i < len(s); i++ {
			if s[i] == '[' {
				depth++
			} else if s[i] == ']' {
				depth--
				if depth == 0 {
					return types.NewMap(e.resolveType(s[4:i]), e.resolveType(s[i+1:]))
				}
			}
		}
	case s == "interface{}":
		return types.NewInterfaceType(nil, nil)
	case strings.HasPrefix(s, "["):
		i := strings.Index(s, "]")
		n, _ := new(big.Int).SetString(s[1:i], 0)
		return types.NewArray(e.resolveType(s[i+1:]), n.Int64())
	}
	if o := types.Universe.Lookup(s); o != nil {
		if tn, ok := o.(*types.TypeName); ok {
			return tn.Type()
		}
	}
	if i := strings.Index(s, "."); i >= 0 {
		pn, tn := s[:i], s[i+1:]
		// imported package by name
		for _, p := range e.g.prog.allTypesPkgs() {
			if p.Name() == pn || p.Path() == pn {
				if o := p.Scope().Lookup(tn); o != nil {
					if t, ok := o.(*types.TypeName); ok {
						return t.Type()
					}
				}
			}
		}
		e.fail("unknown type %s", s)
	}
	if e.pkg != nil {
		if o := e.pkg.Scope().Lookup(s); o != nil {
			if t, ok := o.(*types.TypeName); ok {
				return t.Type()
			}
		}
	}
	e.fail("unknown type %s", s)
	return nil
}

func (e *Env) findPure(name string) (*PureFn, *PkgContracts) {
	for _, pc := range e.pcs {
		if pc == nil {
			continue
		}
		if p, ok := pc.Pures[name]; ok {
			return p, pc
		}
	}
	for _, pc := range e.g.prog.sortedContracts() {
		if p, ok := pc.Pures[name]; ok {
			return p, pc
		}
	}
	return nil, nil
}

func (e *Env) trBool(x Expr) string {
	v := e.tr(x)
	if v.S != "Bool" {
		e.fail("expected boolean: %s (got %s)", exprString(x), v.S)
	}
	return v.T
}

// unify makes two integer operands the same sort (adapting untyped constants).
func (e *Env) unify(a, b Val) (Val, Val, types.Type) {
	g := e.g
	if a.GT == nil && b.GT == nil {
		// both untyped constants: treat as int
		if a.K != nil && b.K != nil {
			return g.intConst(a.K, types.Typ[types.Int]), g.intConst(b.K, types.Typ[types.Int]), types.Typ[types.Int]
		}
		return a, b, nil
	}
	if a.GT == nil && a.K != nil {
		if _, _, ok := intInfo(b.GT); ok {
			return e.constAs(a.K, b.GT), b, b.GT
		}
	}
	if b.GT == nil && b.K != nil {
		if _, _, ok := intInfo(a.GT); ok {
			return a, e.constAs(b.K, a.GT), a.GT
		}
	}
	if a.GT != nil && b.GT != nil && a.S != b.S {
		// implicit widening in int mode is free; in bv mode widths must agree
		e.fail("operands of different sorts: %s vs %s", a.S, b.S)
	}
	t := a.GT
	if t == nil {
		t = b.GT
	}
	return a, b, t
}

func (e *Env) constAs(k *big.Int, t types.Type) Val {
	g := e.g
	bits, _, _ := intInfo(t)
	// in contracts a constant keeps its mathematical value in int mode, wraps in bv mode
	return Val{T: g.ilit(k, bits), S: g.isort(bits), GT: t, K: k}
}

func (e *Env) tr(x Expr) Val {
	g := e.g
	switch n := x.(type) {
	case *EInt:
		return Val{T: "", S: "", K: n.V} // untyped; must be unified
	case *EBool:
		return Val{T: fmt.Sprint(n.V), S: "Bool", GT: types.Typ[types.Bool]}
	case *EStr:
		return Val{T: g.strLit(n.S), S: "Str", GT: types.Typ[types.String]}
	case *EIdent:
		return e.ident(n.Name)
	case *EUn:
		v := e.tr(n.X)
		switch n.Op {
		case "!":
			if v.S != "Bool" {
				e.fail("! on non-bool")
			}
			return Val{T: "(not " + v.T + ")", S: "Bool", GT: v.GT}
		case "-":
			if v.GT == nil && v.K != nil {
				return Val{K: new(big.Int).Neg(v.K)}
			}
			if g.mode == "bv" {
				return Val{T: "(bvneg " + v.T + ")", S: v.S, GT: v.GT}
			}
			return Val{T: "(- " + v.T + ")", S: v.S, GT: v.GT}
		case "^":
			if g.mode == "bv" {
				return Val{T: "(bvnot " + v.T + ")", S: v.S, GT: v.GT}
			}
		}
		e.fail("unary %s unsupported", n.Op)
	case *EBin:
		return e.bin(n)
	case *ECall:
		return e.call(n)
	case *EIndex:
		xv := e.tr(n.X)
		iv := e.tr(n.I)
		return e.index(xv, iv)
	case *ESlice:
		xv := e.tr(n.X)
		return e.sliceExpr(xv, n)
	case *ESel:
		return e.sel(n)
	case *EQuant:
		return e.quant(n)
	case *EType:
		e.fail("type %s used as value", n.T)
	}
	e.fail("cannot translate %s", exprString(x))
	return Val{}
}

func (e *Env) ident(name string) Val {
	g := e.g
	if v, ok := e.vars[name]; ok {
		return v
	}
	if name == "nil" {
		return Val{T: "nil", S: "Nil"}
	}
	// instantiation constant of the function being verified (`instantiate NAME in lo..hi`)
	if k, ok := g.inst[name]; ok {
		return Val{T: g.ilit64(k), S: g.idx(), K: big.NewInt(k)}
	}
	if e.lookup != nil {
		if v, ok := e.lookup(name); ok {
			return v
		}
	}
	// ghost variables
	if fam, ok := g.ghost[name]; ok {
		st := e.state()
		return Val{T: fmt.Sprintf("(select %s 0)", g.heapGet(st, fam, g.famSort[fam])), S: g.ghostSort[name], GT: g.ghostType[name]}
	}
	// package-level constants / variables
	if e.pkg != nil {
		if o := e.pkg.Scope().Lookup(name); o != nil {
			return e.pkgObject(o)
		}
	}
	// zero-argument pure functions used as constants
	if pf, _ := e.findPure(name); pf != nil && len(pf.Params) == 0 {
		return e.call(&ECall{Fn: &EIdent{Name: name}})
	}
	e.fail("unknown identifier %q", name)
	return Val{}
}

func (e *Env) pkgObject(o types.Object) Val {
	g := e.g
	switch c := o.(type) {
	case *types.Const:
		if v, ok := new(big.Int).SetString(c.Val().ExactString(), 10); ok {
			if _, _, isInt := intInfo(c.Type()); isInt {
				if b, ok := c.Type().(*types.Basic); ok && b.Info()&types.IsUntyped != 0 {
					return Val{K: v}
				}
				return g.intConst(v, c.Type())
			}
		}
		if c.Val().Kind() == 1 { // Bool
			return Val{T: c.Val().String(), S: "Bool", GT: c.Type()}
		}
		if b, ok := c.Type().Underlying().(*types.Basic); ok && b.Info()&types.IsString != 0 {
			s := c.Val().ExactString()
			// unquote
			var us string
			fmt.Sscanf(s, "%q", &us)
			return Val{T: g.strLit(us), S: "Str", GT: c.Type()}
		}
	case *types.Var:
		fam := "Glob_" + sanitize(c.Pkg().Name()+"."+c.Name())
		sort := fmt.Sprintf("(Array Int %s)", g.sortOf(c.Type()))
		g.famInit(fam, sort)
		return Val{T: fmt.Sprintf("(select %s 0)", g.heapGet(e.state(), fam, sort)), S: g.sortOf(c.Type()), GT: c.Type()}
	}
	e.fail("unsupported package object %s", o.Name())
	return Val{}
}

func (e *Env) nilAs(t types.Type) Val {
	return e.g.zero(t)
}

func (e *Env) bin(n *EBin) Val {
	g := e.g
	switch n.Op {
	case "&&", "||", "==>", "<==>":
		a := e.trBool(n.X)
		b := e.trBool(n.Y)
		op := map[string]string{"&&": "and", "||": "or", "==>": "=>", "<==>": "="}[n.Op]
		return Val{T: fmt.Sprintf("(%s %s %s)", op, a, b), S: "Bool", GT: types.Typ[types.Bool]}
	}
	a := e.tr(n.X)
	b := e.tr(n.Y)
	// nil comparisons
	if a.S == "Nil" && b.S != "Nil" {
		a = e.nilAs(b.GT)
	}
	if b.S == "Nil" && a.S != "Nil" {
		b = e.nilAs(a.GT)
	}
	switch n.Op {
	case "==", "!=":
		if (a.GT == nil && a.K != nil) || (b.GT == nil && b.K != nil) {
			a, b, _ = e.unify(a, b)
		}
		if a.S != b.S {
			e.fail("comparison of different sorts %s vs %s in %s", a.S, b.S, exprString(n))
		}
		var t string
		if _, isSlice := typeUnder(a.GT).(*types.Slice); isSlice && (isNilSlice(a) || isNilSlice(b)) {
			o := a
			if isNilSlice(a) {
				o = b
			}
			t = fmt.Sprintf("(= (s-ref %s) 0)", o.T)
		} else {
			t = fmt.Sprintf("(= %s %s)", a.T, b.T)
		}
		if n.Op == "!=" {
			t = "(not " + t + ")"
		}
		return Val{T: t, S: "Bool", GT: types.Typ[types.Bool]}
	case "<", "<=", ">", ">=":
		var t types.Type
		a, b, t = e.unify(a, b)
		if t == nil {
			e.fail("cannot type comparison %s", exprString(n))
		}
		_, signed, ok := intInfo(t)
		if !ok && a.S == "Str" && b.S == "Str" {
			var tt string
			switch n.Op {
			case "<":
				tt = fmt.Sprintf("(str-lt %s %s)", a.T, b.T)
			case ">":
				tt = fmt.Sprintf("(str-lt %s %s)", b.T, a.T)
			case "<=":
				tt = fmt.Sprintf("(not (str-lt %s %s))", b.T, a.T)
			default:
				tt = fmt.Sprintf("(not (str-lt %s %s))", a.T, b.T)
			}
			return Val{T: tt, S: "Bool", GT: types.Typ[types.Bool]}
		}
		if !ok {
			e.fail("ordered comparison on non-integer %s", exprString(n))
		}
		return Val{T: fmt.Sprintf("(%s %s %s)", g.cmp(n.Op, signed), a.T, b.T), S: "Bool", GT: types.Typ[types.Bool]}
	case "+", "-", "*", "/", "%", "&", "|", "^", "&^":
		if a.GT == nil && b.GT == nil && a.K != nil && b.K != nil {
			r := new(big.Int)
			switch n.Op {
			case "+":
				r.Add(a.K, b.K)
			case "-":
				r.Sub(a.K, b.K)
			case "*":
				r.Mul(a.K, b.K)
			case "/":
				r.Quo(a.K, b.K)
			case "%":
				r.Rem(a.K, b.K)
			case "&":
				r.And(a.K, b.K)
			case "|":
				r.Or(a.K, b.K)
			case "^":
				r.Xor(a.K, b.K)
			default:
				e.fail("constant op %s", n.Op)
			}
			return Val{K: r}
		}
		if a.S == "Str" && b.S == "Str" && n.Op == "+" {
			return Val{T: fmt.Sprintf("(str-cat %s %s)", a.T, b.T), S: "Str", GT: a.GT}
		}
		var t types.Type
		a, b, t = e.unify(a, b)
		if t == nil {
			e.fail("cannot type %s", exprString(n))
		}
		op := map[string]token.Token{"+": token.ADD, "-": token.SUB, "*": token.MUL, "/": token.QUO, "%": token.REM,
			"&": token.AND, "|": token.OR, "^": token.XOR, "&^": token.AND_NOT}[n.Op]
		term, _ := g.arith(op, a, b, t)
		return Val{T: term, S: a.S, GT: t}
	case "<<", ">>":
		if a.GT == nil && a.K != nil && b.K != nil {
			if n.Op == "<<" {
				return Val{K: new(big.Int).Lsh(a.K, uint(b.K.Int64()))}
			}
			return Val{K: new(big.Int).Rsh(a.K, uint(b.K.Int64()))}
		}
		if b.K == nil && (g.mode != "bv" || b.GT == nil) {
			e.fail("shift by non-constant in contract (only in bv mode)")
		}
		op := token.SHL
		if n.Op == ">>" {
			op = token.SHR
		}
		save := g.fc
		tmp := *g.fc
		tmp.NoOverflow = true
		g.fc = &tmp
		term := g.shift(op, a, b, a.GT, token.NoPos)
		g.fc = save
		return Val{T: term, S: a.S, GT: a.GT}
	}
	e.fail("binary operator %s unsupported", n.Op)
	return Val{}
}

func typeUnder(t types.Type) types.Type {
	if t == nil {
		return nil
	}
	return t.Underlying()
}

func isNilSlice(v Val) bool { return strings.HasPrefix(v.T, "(mk-slice 0 ") }

func (e *Env) index(xv, iv Val) Val {
	g := e.g
	switch u := typeUnder(xv.GT).(type) {
	case *types.Slice:
		i := e.asIdx(iv)
		r := Val{T: g.elemRead(e.state(), u.Elem(), xv.T, i), S: g.sortOf(u.Elem()), GT: u.Elem()}
		e.heapTypeFact(r)
		return r
	case *types.Basic:
		if u.Info()&types.IsString != 0 {
			return Val{T: fmt.Sprintf("(sat %s %s)", xv.T, e.asIdx(iv)), S: g.isort(8), GT: types.Typ[types.Uint8]}
		}
	case *types.Array:
		return Val{T: fmt.Sprintf("(select %s %s)", xv.T, e.asIdx(iv)), S: g.sortOf(u.Elem()), GT: u.Elem()}
	case *types.Map:
		if strings.HasPrefix(xv.S, "(Array ") {
			// ghost function (ghost variable of map type): total, by value
			k := e.coerceTo(iv, u.Key())
			r := Val{T: fmt.Sprintf("(select %s %s)", xv.T, k.T), S: g.sortOf(u.Elem()), GT: u.Elem()}
			if !strings.Contains(r.T, "q!") {
				if f := g.rangeFact(r.T, u.Elem()); f != "true" && !g.declared["tf:"+r.T] {
					g.declared["tf:"+r.T] = true
					g.assume(f)
				}
			}
			return r
		}
		// value lookup (zero value when absent is NOT modelled here: use has(m,k))
		_, _, vfam, vsort := g.mapFams2(u)
		k := e.coerceTo(iv, u.Key())
		return Val{T: fmt.Sprintf("(select (select %s %s) %s)", g.heapGet(e.state(), vfam, vsort), xv.T, k.T), S: g.sortOf(u.Elem()), GT: u.Elem()}
	case *types.Pointer:
		if arr, ok := u.Elem().Underlying().(*types.Array); ok {
			fam, sort := g.elemFam(arr.Elem())
			return Val{T: fmt.Sprintf("(select (select %s %s) %s)", g.heapGet(e.state(), fam, sort), xv.T, e.asIdx(iv)), S: g.sortOf(arr.Elem()), GT: arr.Elem()}
		}
	}
	e.fail("cannot index %s", xv.GT)
	return Val{}
}

func (e *Env) coerceTo(v Val, t types.Type) Val {
	if v.GT == nil && v.K != nil {
		if _, _, ok := intInfo(t); ok {
			return e.constAs(v.K, t)
		}
	}
	if v.S == "Nil" {
		return e.nilAs(t)
	}
	return v
}

func (e *Env) asIdx(v Val) string {
	if v.GT == nil && v.K != nil {
		return e.g.ilit(v.K, 64)
	}
	return e.g.toIdx(v)
}

func (e *Env) sliceExpr(xv Val, n *ESlice) Val {
	g := e.g
	if xv.S == "Str" {
		lo := g.ilit64(0)
		if n.Lo != nil {
			lo = e.asIdx(e.tr(n.Lo))
		}
		hi := "(slen " + xv.T + ")"
		if n.Hi != nil {
			hi = e.asIdx(e.tr(n.Hi))
		}
		return Val{T: fmt.Sprintf("(str-sub %s %s %s)", xv.T, lo, hi), S: "Str", GT: xv.GT}
	}
	if _, ok := typeUnder(xv.GT).(*types.Slice); !ok {
		e.fail("slice expression on %s", xv.GT)
	}
	lo := g.ilit64(0)
	if n.Lo != nil {
		lo = e.asIdx(e.tr(n.Lo))
	}
	hi := slen(xv.T)
	if n.Hi != nil {
		hi = e.asIdx(e.tr(n.Hi))
	}
	return Val{T: fmt.Sprintf("(mk-slice %s %s %s %s)", sref(xv.T), g.add(soff(xv.T), lo), g.sub(hi, lo), g.sub(scap(xv.T), lo)), S: "Slice", GT: xv.GT}
}

func (e *Env) sel(n *ESel) Val {
	g := e.g
	// package-qualified identifier?
	if id, ok := n.X.(*EIdent); ok {
		if _, isVar := e.vars[id.Name]; !isVar {
			for _, p := range g.prog.allTypesPkgs() {
				if p.Name() == id.Name {
					if o := p.Scope().Lookup(n.Name); o != nil {
						return e.pkgObject(o)
					}
				}
			}
		}
	}
	xv := e.tr(n.X)
	t := xv.GT
	if t == nil {
		e.fail("selector on untyped value")
	}
	if p, ok := t.Underlying().(*types.Pointer); ok {
		st, ok := p.Elem().Underlying().(*types.Struct)
		// interior pointer (address of a struct value stored inside another object): read through the address
		if ok && xv.Addr != nil && xv.Addr.Fam != "$struct" {
			for i := 0; i < st.NumFields(); i++ {
				if st.Field(i).Name() == n.Name {
					na := *xv.Addr
					na.Path = append(append([]pathStep{}, xv.Addr.Path...), pathStep{field: i, st: p.Elem()})
					na.T = st.Field(i).Type()
					return Val{T: g.load(e.state(), &na), S: g.sortOf(na.T), GT: na.T}
				}
			}
			e.fail("no field %s in %s", n.Name, p.Elem())
		}
		if !ok {
			e.fail("selector on pointer to non-struct")
		}
		for i := 0; i < st.NumFields(); i++ {
			if st.Field(i).Name() == n.Name {
				fam, sort, ft := g.fieldFam(p.Elem(), i)
				r := Val{T: fmt.Sprintf("(select %s %s)", g.heapGet(e.state(), fam, sort), xv.T), S: g.sortOf(ft), GT: ft}
				e.heapTypeFact(r)
				return r
			}
		}
		// promoted through embedded struct (one level)
		for i := 0; i < st.NumFields(); i++ {
			f := st.Field(i)
			if f.Embedded() {
				if est, ok := f.Type().Underlying().(*types.Struct); ok {
					for j := 0; j < est.NumFields(); j++ {
						if est.Field(j).Name() == n.Name {
							fam, sort, ft := g.fieldFam(p.Elem(), i)
							outer := fmt.Sprintf("(select %s %s)", g.heapGet(e.state(), fam, sort), xv.T)
							return Val{T: fmt.Sprintf("(%s-f%d %s)", g.sortOf(ft), j, outer), S: g.sortOf(est.Field(j).Type()), GT: est.Field(j).Type()}
						}
					}
				}
				// promoted through an embedded pointer to a struct
				if ept, ok := f.Type().Underlying().(*types.Pointer); ok {
					if est, ok := ept.Elem().Underlying().(*types.Struct); ok {
						for j := 0; j < est.NumFields(); j++ {
							if est.Field(j).Name() == n.Name {
								fam, sort, ft := g.fieldFam(p.Elem(), i)
								inner := Val{T: fmt.Sprintf("(select %s %s)", g.heapGet(e.state(), fam, sort), xv.T), S: "Int", GT: ft}
								fam2, sort2, ft2 := g.fieldFam(ept.Elem(), j)
								r := Val{T: fmt.Sprintf("(select %s %s)", g.heapGet(e.state(), fam2, sort2), inner.T), S: g.sortOf(ft2), GT: ft2}
								e.heapTypeFact(r)
								return r
							}
						}
					}
				}
			}
		}
		e.fail("no field %s in %s", n.Name, p.Elem())
	}
	if st, ok := t.Underlying().(*types.Struct); ok {
		for i := 0; i < st.NumFields(); i++ {
			if st.Field(i).Name() == n.Name {
				return Val{T: fmt.Sprintf("(%s-f%d %s)", g.sortOf(t), i, xv.T), S: g.sortOf(st.Field(i).Type()), GT: st.Field(i).Type()}
			}
		}
	}
	e.fail("cannot select %s on %s", n.Name, t)
	return Val{}
}

func (e *Env) quant(n *EQuant) Val {
	g := e.g
	c := e.child()
	g.nfresh++
	vname := fmt.Sprintf("q!%s!%d", sanitize(n.Var), g.nfresh)
	var sort string
	var gt types.Type
	var rng string
	if n.Typ == "" {
		gt = types.Typ[types.Int]
		sort = g.idx()
		c.vars[n.Var] = Val{T: vname, S: sort, GT: gt}
		lo := e.asIdx(e.tr(n.Lo))
		hi := e.asIdx(e.tr(n.Hi))
		rng = fmt.Sprintf("(and %s %s)", g.sle(lo, vname), g.slt(vname, hi))
		// absolute-index form: quantify over j = off(X)+k for the first slice X indexed by k,
		// so that facts about windows of the same backing array match syntactically.
		if anchor := findAnchor(n.Body, n.Var); anchor != nil && !e.noAbs && os.Getenv("GOVC_NOABS") == "" {
			if xv, ok := e.tryTr(anchor); ok {
				if _, isSl := typeUnder(xv.GT).(*types.Slice); isSl {
					off := soff(xv.T)
					ca := e.child()
					ca.noAbs = false
					ca.vars[n.Var] = Val{T: g.sub(vname, off), S: sort, GT: gt}
					bodyA := ca.trBool(n.Body)
					rngA := fmt.Sprintf("(and %s %s)", g.sle(g.add(off, lo), vname), g.slt(vname, g.add(off, hi)))
					var qa string
					if n.Forall {
						qa = mergeForall(vname, sort, rngA, bodyA)
					} else {
						qa = fmt.Sprintf("(exists ((%s %s)) (and %s %s))", vname, sort, rngA, bodyA)
					}
					if g.mode == "int" {
						return Val{T: qa, S: "Bool", GT: types.Typ[types.Bool]}
					}
					// bv: equivalent only when off+lo, off+hi and j-off do not wrap
					lim := g.ilit64(1 << 50)
					nlim := g.ilit64(-(1 << 50))
					noWrap := fmt.Sprintf("(and %s %s %s %s %s %s)", g.sle(nlim, lo), g.sle(lo, lim), g.sle(nlim, hi), g.sle(hi, lim), g.sle(g.ilit64(0), off), g.sle(off, lim))
					cn := e.child()
					cn.noAbs = true
					orig := cn.quant(n)
					return Val{T: fmt.Sprintf("(ite %s %s %s)", noWrap, qa, orig.T), S: "Bool", GT: types.Typ[types.Bool]}
				}
			}
		}
	} else {
		gt = e.resolveType(n.Typ)
		sort = g.sortOf(gt)
		v := Val{T: vname, S: sort, GT: gt}
		c.vars[n.Var] = v
		rng = g.typeFacts(v, gt)
		// flatten directly nested typed universal quantifiers into one binder list (better trigger inference)
		if n.Forall {
			binders := []string{fmt.Sprintf("(%s %s)", vname, sort)}
			rngs := []string{rng}
			inner := n.Body
			for {
				q, ok := inner.(*EQuant)
				if !ok || !q.Forall || q.Typ == "" {
					break
				}
				g.nfresh++
				vn := fmt.Sprintf("q!%s!%d", sanitize(q.Var), g.nfresh)
				qt := e.resolveType(q.Typ)
				qv := Val{T: vn, S: g.sortOf(qt), GT: qt}
				c.vars[q.Var] = qv
				binders = append(binders, fmt.Sprintf("(%s %s)", vn, qv.S))
				rngs = append(rngs, g.typeFacts(qv, qt))
				inner = q.Body
			}
			if len(binders) > 1 {
				body := c.trBool(inner)
				return Val{T: fmt.Sprintf("(forall (%s) (=> (and %s) %s))", strings.Join(binders, " "), strings.Join(rngs, " "), body), S: "Bool", GT: types.Typ[types.Bool]}
			}
		}
	}
	body := c.trBool(n.Body)
	if n.Forall {
		if n.Typ == "" {
			return Val{T: mergeForall(vname, sort, rng, body), S: "Bool", GT: types.Typ[types.Bool]}
		}
		return Val{T: fmt.Sprintf("(forall ((%s %s)) (=> %s %s))", vname, sort, rng, body), S: "Bool", GT: types.Typ[types.Bool]}
	}
	return Val{T: fmt.Sprintf("(exists ((%s %s)) (and %s %s))", vname, sort, rng, body), S: "Bool", GT: types.Typ[types.Bool]}
}

func (e *Env) call(n *ECall) Val {
	g := e.g
	// conversion to a type expression: []byte(x) unsupported; T(x) for integer types
	var fname string
	switch f := n.Fn.(type) {
	case *EIdent:
		fname = f.Name
	case *EType:
		e.fail("conversion to %s unsupported in contracts", f.T)
	case *ESel:
		fname = exprString(f)
	default:
		e.fail("call of %s", exprString(n.Fn))
	}
	switch fname {
	case "old":
		c := *e
		c.inOld = true
		return c.tr(n.Args[0])
	case "len", "cap":
		v := e.tr(n.Args[0])
		switch u := typeUnder(v.GT).(type) {
		case *types.Slice:
			if fname == "cap" {
				return Val{T: scap(v.T), S: g.idx(), GT: types.Typ[types.Int]}
			}
			return Val{T: slen(v.T), S: g.idx(), GT: types.Typ[types.Int]}
		case *types.Basic:
			if u.Info()&types.IsString != 0 {
				return Val{T: fmt.Sprintf("(slen %s)", v.T), S: g.idx(), GT: types.Typ[types.Int]}
			}
		case *types.Map:
			lf, ls := g.mapLenFam(u)
			// len of a nil map is 0
			return Val{T: fmt.Sprintf("(ite (= %s 0) %s (select %s %s))", v.T, g.ilit64(0), g.heapGet(e.state(), lf, ls), v.T), S: g.idx(), GT: types.Typ[types.Int]}
		case *types.Array:
			return g.intConst(big.NewInt(u.Len()), types.Typ[types.Int])
		}
		e.fail("len of %s", v.GT)
	case "ite":
		c := e.trBool(n.Args[0])
		a := e.tr(n.Args[1])
		b := e.tr(n.Args[2])
		if (a.GT == nil && a.K != nil) || (b.GT == nil && b.K != nil) {
			a, b, _ = e.unify(a, b)
		}
		if a.S == "Nil" {
			a = e.nilAs(b.GT)
		}
		if b.S == "Nil" {
			b = e.nilAs(a.GT)
		}
		if a.S != b.S {
			e.fail("ite branches of different sorts in %s", exprString(n))
		}
		return Val{T: fmt.Sprintf("(ite %s %s %s)", c, a.T, b.T), S: a.S, GT: a.GT}
	case "has":
		m := e.tr(n.Args[0])
		mt, ok := typeUnder(m.GT).(*types.Map)
		if !ok {
			e.fail("has() on non-map")
		}
		pf, ps, _, _ := g.mapFams2(mt)
		k := e.coerceTo(e.tr(n.Args[1]), mt.Key())
		return Val{T: fmt.Sprintf("(and (not (= %s 0)) (select (select %s %s) %s))", m.T, g.heapGet(e.state(), pf, ps), m.T, k.T), S: "Bool", GT: types.Typ[types.Bool]}
	case "typeis":
		v := e.tr(n.Args[0])
		var ts string
		switch a := n.Args[1].(type) {
		case *EType:
			ts = a.T
		default:
			ts = exprString(a)
		}
		t := e.resolveType(ts)
		return Val{T: fmt.Sprintf("(= (tagof %s) %d)", v.T, g.tagID(t)), S: "Bool", GT: types.Typ[types.Bool]}
	case "unbox":
		// unbox(x, T): the concrete value inside interface x, assuming typeis(x,T)
		v := e.tr(n.Args[0])
		var ts string
		switch a := n.Args[1].(type) {
		case *EType:
			ts = a.T
		default:
			ts = exprString(a)
		}
		t := e.resolveType(ts)
		return Val{T: fmt.Sprintf("(%s %s)", g.unboxFn(t), v.T), S: g.sortOf(t), GT: t}
	case "mem":
		// mem(list, x): exists k in [0,len) list[k]==x, as a predicate symbol memP(row, lo, hi, x) defined by two
		// axioms (witness function memW one way, any index the other way) so that E-matching has triggers.
		lv := e.tr(n.Args[0])
		st, ok := typeUnder(lv.GT).(*types.Slice)
		if !ok {
			e.fail("mem on non-slice")
		}
		xv := e.coerceTo(e.tr(n.Args[1]), st.Elem())
		es := g.sortOf(st.Elem())
		if xv.S != es {
			e.fail("mem: element sort mismatch")
		}
		fam, fsort := g.elemFam(st.Elem())
		row := fmt.Sprintf("(select %s %s)", g.heapGet(e.state(), fam, fsort), sref(lv.T))
		p := "memP_" + typeKey(st.Elem())
		w := "memW_" + typeKey(st.Elem())
		if !g.declared[p] {
			g.declared[p] = true
			idx := g.idx()
			rs := fmt.Sprintf("(Array %s %s)", idx, es)
			g.decls = append(g.decls, fmt.Sprintf("(declare-fun %s (%s %s %s %s) Bool)", p, rs, idx, idx, es),
				fmt.Sprintf("(declare-fun %s (%s %s %s %s) %s)", w, rs, idx, idx, es, idx))
			ax1 := fmt.Sprintf("(forall ((mr %s) (ml %s) (mh %s) (mx %s)) (! (=> (%s mr ml mh mx) (and %s %s (= (select mr (%s mr ml mh mx)) mx))) :pattern ((%s mr ml mh mx))))",
				rs, idx, idx, es, p, g.sle("ml", fmt.Sprintf("(%s mr ml mh mx)", w)), g.slt(fmt.Sprintf("(%s mr ml mh mx)", w), "mh"), w, p)
			ax2 := fmt.Sprintf("(forall ((mr %s) (ml %s) (mh %s) (mx %s) (mj %s)) (! (=> (and %s %s (= (select mr mj) mx)) (%s mr ml mh mx)) :pattern ((select mr mj) (%s mr ml mh mx))))",
				rs, idx, idx, es, idx, g.sle("ml", "mj"), g.slt("mj", "mh"), p, p)
			// prepend so that every obligation of the function sees the definition
			g.assumes = append([]string{ax1, ax2}, g.assumes...)
			g.shiftTags(2)
			for _, o := range g.obls {
				o.nAssume += 2
			}
			for i := range g.covers {
				g.covers[i].nAssume += 2
			}
		}
		return Val{T: fmt.Sprintf("(%s %s %s %s %s)", p, row, soff(lv.T), g.add(soff(lv.T), slen(lv.T)), xv.T), S: "Bool", GT: types.Typ[types.Bool]}
	case "fresh":
		v := e.tr(n.Args[0])
		var ref string
		switch typeUnder(v.GT).(type) {
		case *types.Slice:
			ref = sref(v.T)
		default:
			ref = v.T
		}
		// allocated after the "old" state of this environment: function entry for the function's own contract,
		// the call-time state for a callee contract applied at a call site
		base := g.init
		if e.old != nil {
			base = e.old
		}
		a0 := g.heapGet(base, "$alloc", "Int")
		return Val{T: fmt.Sprintf("(>= %s %s)", ref, a0), S: "Bool", GT: types.Typ[types.Bool]}
	case "loopfresh":
		// loopfresh(x): x was allocated after the loop this invariant belongs to was entered
		v := e.tr(n.Args[0])
		ref := v.T
		if _, isSl := typeUnder(v.GT).(*types.Slice); isSl {
			ref = sref(v.T)
		}
		for _, li := range g.loops {
			if li.header == e.at && li.allocEntry != "" {
				return Val{T: fmt.Sprintf("(>= %s %s)", ref, li.allocEntry), S: "Bool", GT: types.Typ[types.Bool]}
			}
		}
		// before the loop is entered (invariant checked on the entry edge): nothing has been allocated inside it yet
		return Val{T: fmt.Sprintf("(>= %s %s)", ref, g.heapGet(e.state(), "$alloc", "Int")), S: "Bool", GT: types.Typ[types.Bool]}
	case "allocated":
		// allocated(x): the reference x was allocated before the state the expression is evaluated in
		// (true of every reference stored in that state's heap; stated explicitly where a quantified invariant needs it)
		v := e.tr(n.Args[0])
		ref := v.T
		if _, isSl := typeUnder(v.GT).(*types.Slice); isSl {
			ref = sref(v.T)
		}
		return Val{T: fmt.Sprintf("(< %s %s)", ref, g.heapGet(e.state(), "$alloc", "Int")), S: "Bool", GT: types.Typ[types.Bool]}
	case "implements":
		// implements(x, I): the dynamic type of interface value x implements interface I
		v := e.tr(n.Args[0])
		var ts string
		switch a := n.Args[1].(type) {
		case *EType:
			ts = a.T
		default:
			ts = exprString(a)
		}
		t := e.resolveType(ts)
		p := "implements_" + typeKey(t)
		if !g.declared[p] {
			g.declared[p] = true
			g.decls = append(g.decls, fmt.Sprintf("(declare-fun %s (Int) Bool)", p))
			g.assume(fmt.Sprintf("(not (%s 0))", p))
		}
		g.implementsFacts(p, t)
		return Val{T: fmt.Sprintf("(%s (tagof %s))", p, v.T), S: "Bool", GT: types.Typ[types.Bool]}
	case "conj":
		// conj(j, lo, hi, body): finite conjunction with constant bounds (after `instantiate`), expanded (quantifier-free)
		id, ok := n.Args[0].(*EIdent)
		if !ok || len(n.Args) != 4 {
			e.fail("conj(j, lo, hi, body)")
		}
		lo, hi := e.tr(n.Args[1]), e.tr(n.Args[2])
		if lo.K == nil || hi.K == nil {
			e.fail("conj: bounds must be constants (use `instantiate`)")
		}
		terms := []string{"true"}
		for k := lo.K.Int64(); k < hi.K.Int64(); k++ {
			c := e.child()
			c.vars[id.Name] = Val{T: g.ilit64(k), S: g.idx(), K: big.NewInt(k)}
			terms = append(terms, c.trBool(n.Args[3]))
		}
		return Val{T: "(and " + strings.Join(terms, " ") + ")", S: "Bool", GT: types.Typ[types.Bool]}
	case "sum":
		// sum(j, lo, hi, body): finite sum with constant bounds (after `instantiate`), expanded term by term
		id, ok := n.Args[0].(*EIdent)
		if !ok || len(n.Args) != 4 {
			e.fail("sum(j, lo, hi, body)")
		}
		lo, hi := e.tr(n.Args[1]), e.tr(n.Args[2])
		if lo.K == nil || hi.K == nil {
			e.fail("sum: bounds must be constants (use `instantiate`)")
		}
		var terms []string
		var gt types.Type
		var sort string
		for k := lo.K.Int64(); k < hi.K.Int64(); k++ {
			c := e.child()
			c.vars[id.Name] = Val{T: g.ilit64(k), S: g.idx(), K: big.NewInt(k)}
			t := c.tr(n.Args[3])
			if t.GT == nil && t.K != nil {
				t = e.constAs(t.K, types.Typ[types.Int64])
			}
			gt, sort = t.GT, t.S
			terms = append(terms, t.T)
		}
		if g.mode != "int" {
			e.fail("sum() is available in int mode only")
		}
		if len(terms) == 0 {
			return Val{T: "0", S: "Int", GT: types.Typ[types.Int64]}
		}
		if len(terms) == 1 {
			return Val{T: terms[0], S: sort, GT: gt}
		}
		return Val{T: "(+ " + strings.Join(terms, " ") + ")", S: sort, GT: gt}
	case "mod":
		// mod(x, y): the mathematical (SMT-LIB) remainder, equal to Go's x % y for x >= 0, y > 0 (int mode only)
		if g.mode != "int" {
			e.fail("mod() is available in int mode only")
		}
		a, b, _ := e.unify(e.tr(n.Args[0]), e.tr(n.Args[1]))
		return Val{T: fmt.Sprintf("(mod %s %s)", a.T, b.T), S: "Int", GT: a.GT}
	case "iterations":
		// iterations(): how many keys the range-over-map loop (the function's only one, or the one this invariant belongs to) has produced
		rs := g.rangeFor(e.at)
		if rs == nil {
			e.fail("iterations(): no unique range-over-map loop here")
		}
		return Val{T: fmt.Sprintf("(select %s 0)", g.heapGet(e.state(), rs.cnt, "(Array Int Int)")), S: "Int", GT: types.Typ[types.Int]}
	case "visited":
		// visited(k): key k has already been produced by the range-over-map loop (see iterations)
		rs := g.rangeFor(e.at)
		if rs == nil {
			e.fail("visited(k): no unique range-over-map loop here")
		}
		kv := e.coerceTo(e.tr(n.Args[0]), rs.mt.Key())
		h := g.heapGet(e.state(), rs.visited, g.famSort[rs.visited])
		return Val{T: fmt.Sprintf("(select (select %s 0) %s)", h, kv.T), S: "Bool", GT: types.Typ[types.Bool]}
	case "cur":
		// cur(x): the current value of the local variable x (a loop variable that shadows a parameter of the same name)
		id, ok := n.Args[0].(*EIdent)
		if !ok || e.lookup == nil {
			e.fail("cur() needs a local variable name")
		}
		if v, ok := e.lookup(id.Name); ok {
			return v
		}
		e.fail("cur(%s): no such local", id.Name)
	case "substr":
		v := e.tr(n.Args[0])
		return Val{T: fmt.Sprintf("(str-sub %s %s %s)", v.T, e.asIdx(e.tr(n.Args[1])), e.asIdx(e.tr(n.Args[2]))), S: "Str", GT: v.GT}
	case "sameArray":
		a := e.tr(n.Args[0])
		b := e.tr(n.Args[1])
		return Val{T: fmt.Sprintf("(= (s-ref %s) (s-ref %s))", a.T, b.T), S: "Bool", GT: types.Typ[types.Bool]}
	case "runestr":
		// runestr(x): string(x) of an integer (the one-character string of code point x)
		v := e.tr(n.Args[0])
		if v.GT == nil && v.K != nil {
			v = e.constAs(v.K, types.Typ[types.Int])
		}
		x := v.T
		if g.mode == "bv" {
			x = g.convertInt(v, v.GT, types.Typ[types.Int64]).T
		}
		return Val{T: g.runeStr(x), S: "Str", GT: types.Typ[types.String]}
	case "runeLen":
		v := e.tr(n.Args[0])
		return Val{T: fmt.Sprintf("(rune-len %s)", v.T), S: g.idx(), GT: types.Typ[types.Int]}
	case "runeAt":
		v := e.tr(n.Args[0])
		return Val{T: fmt.Sprintf("(rune-at %s %s)", v.T, e.asIdx(e.tr(n.Args[1]))), S: g.isort(32), GT: types.Typ[types.Int32]}
	case "deref":
		// deref(p): the value p points to (pointer to a non-struct value: *[]byte, *int, ...), in the state of the expression
		v := e.tr(n.Args[0])
		pt, ok := typeUnder(v.GT).(*types.Pointer)
		if !ok {
			e.fail("deref of non-pointer")
		}
		return Val{T: g.load(e.state(), g.addrOf(v)), S: g.sortOf(pt.Elem()), GT: pt.Elem()}
	case "slen":
		v := e.tr(n.Args[0])
		return Val{T: fmt.Sprintf("(slen %s)", v.T), S: g.idx(), GT: types.Typ[types.Int]}
	case "sat":
		v := e.tr(n.Args[0])
		return Val{T: fmt.Sprintf("(sat %s %s)", v.T, e.asIdx(e.tr(n.Args[1]))), S: g.isort(8), GT: types.Typ[types.Uint8]}
	}
	// integer conversions
	if o := types.Universe.Lookup(fname); o != nil {
		if tn, ok := o.(*types.TypeName); ok && len(n.Args) == 1 {
			if _, _, isInt := intInfo(tn.Type()); isInt {
				v := e.tr(n.Args[0])
				if v.GT == nil && v.K != nil {
					return e.constAs(v.K, tn.Type())
				}
				if v.S == "F64" {
					return Val{T: g.floatToInt(v.T, tn.Type()), S: g.sortOf(tn.Type()), GT: tn.Type()}
				}
				return g.convertInt(v, v.GT, tn.Type())
			}
		}
	}
	// pure spec functions
	if pf, pc := e.findPure(fname); pf != nil {
		if len(pf.Params) != len(n.Args) {
			e.fail("pure %s: arity", fname)
		}
		if e.depth > 40 {
			e.fail("pure %s: expansion too deep (recursive?)", fname)
		}
		defEnv := &Env{g: g, vars: map[string]Val{}, cur: e.cur, old: e.old, inOld: e.inOld, pkg: g.prog.typesPkg(pc.PkgPath), pcs: []*PkgContracts{pc}, depth: e.depth + 1}
		var args []Val
		for i, p := range pf.Params {
			pt := defEnv.resolveType(p.Type)
			a := e.coerceTo(e.tr(n.Args[i]), pt)
			if a.S != g.sortOf(pt) {
				e.fail("pure %s: argument %d has sort %s, want %s", fname, i, a.S, g.sortOf(pt))
			}
			a.GT = pt
			defEnv.vars[p.Name] = a
			args = append(args, a)
		}
		rt := defEnv.resolveType(pf.Ret)
		if pf.Body == nil {
			// uninterpreted
			fn := "pure_" + sanitize(pc.PkgPath[strings.LastIndex(pc.PkgPath, "/")+1:]) + "_" + pf.Name
			if !g.declared[fn] {
				g.declared[fn] = true
				var ss []string
				for _, a := range args {
					ss = append(ss, a.S)
				}
				g.decls = append(g.decls, fmt.Sprintf("(declare-fun %s (%s) %s)", fn, strings.Join(ss, " "), g.sortOf(rt)))
			}
			if len(args) == 0 {
				return Val{T: fn, S: g.sortOf(rt), GT: rt}
			}
			var ts []string
			for _, a := range args {
				ts = append(ts, a.T)
			}
			return Val{T: fmt.Sprintf("(%s %s)", fn, strings.Join(ts, " ")), S: g.sortOf(rt), GT: rt}
		}
		r := defEnv.coerceTo(defEnv.tr(pf.Body), rt)
		if r.S != g.sortOf(rt) {
			e.fail("pure %s: body has sort %s, want %s", fname, r.S, g.sortOf(rt))
		}
		r.GT = rt
		return r
	}
	e.fail("unknown function %s in contract", fname)
	return Val{}
}

// heapTypeFact: a value read from the heap in a contract expression has the type invariant of its Go type
// (integer range in int mode, slice header well-formedness). Only for closed terms (no quantifier-bound variable).
func (e *Env) heapTypeFact(v Val) {
	if strings.Contains(v.T, "q!") || v.GT == nil {
		return
	}
	f := e.g.typeFacts(v, v.GT)
	if f != "true" && !e.g.declared["tf:"+v.T] {
		e.g.declared["tf:"+v.T] = true
		e.g.assume(f)
		// a reference stored in the heap of some state was allocated before that state
		if st := e.state(); st != nil {
			al := e.g.heapGet(st, "$alloc", "Int")
			switch v.GT.Underlying().(type) {
			case *types.Pointer, *types.Map:
				e.g.assume(fmt.Sprintf("(< %s %s)", v.T, al))
			case *types.Slice:
				e.g.assume(fmt.Sprintf("(< (s-ref %s) %s)", v.T, al))
			}
		}
	}
}

// findAnchor: the first slice-valued expression X such that X[v] occurs in body and X does not mention v.
func findAnchor(body Expr, v string) Expr {
	var found Expr
	var walk func(e Expr)
	walk = func(e Expr) {
		if found != nil || e == nil {
			return
		}
		switch n := e.(type) {
		case *EIndex:
			if id, ok := n.I.(*EIdent); ok && id.Name == v && !mentions(n.X, v) {
				found = n.X
				return
			}
			walk(n.X)
			walk(n.I)
		case *EBin:
			walk(n.X)
			walk(n.Y)
		case *EUn:
			walk(n.X)
		case *ECall:
			for _, a := range n.Args {
				walk(a)
			}
		case *ESlice:
			walk(n.X)
			walk(n.Lo)
			walk(n.Hi)
		case *ESel:
			walk(n.X)
		case *EQuant:
			if n.Var != v {
				walk(n.Lo)
				walk(n.Hi)
				walk(n.Body)
			}
		}
	}
	walk(body)
	return found
}

func mentions(e Expr, v string) bool {
	switch n := e.(type) {
	case nil:
		return false
	case *EIdent:
		return n.Name == v
	case *EIndex:
		return mentions(n.X, v) || mentions(n.I, v)
	case *EBin:
		return mentions(n.X, v) || mentions(n.Y, v)
	case *EUn:
		return mentions(n.X, v)
	case *ECall:
		for _, a := range n.Args {
			if mentions(a, v) {
				return true
			}
		}
		return false
	case *ESlice:
		return mentions(n.X, v) || mentions(n.Lo, v) || mentions(n.Hi, v)
	case *ESel:
		return mentions(n.X, v)
	case *EQuant:
		return mentions(n.Lo, v) || mentions(n.Hi, v) || mentions(n.Body, v)
	}
	return false
}

// tryTr translates x, reporting failure instead of panicking.
func (e *Env) tryTr(x Expr) (v Val, ok bool) {
	defer func() {
		if r := recover(); r != nil {
			if _, isU := r.(UnsupportedErr); isU {
				ok = false
				return
			}
			panic(r)
		}
	}()
	return e.tr(x), true
}

// topParts splits a clause with a top-level finite conjunction -- conj(j, lo, hi, P) or G ==> conj(...) -- into one
// term per instance, so that each instance is its own (small) obligation. Any other clause is a single part.
type topPart struct {
	Suffix string
	T      string
}

func (e *Env) topParts(x Expr) []topPart {
	switch n := x.(type) {
	case *ECall:
		if id, ok := n.Fn.(*EIdent); ok && id.Name == "conj" && len(n.Args) == 4 {
			v, ok := n.Args[0].(*EIdent)
			if !ok {
				break
			}
			lo, hi := e.tr(n.Args[1]), e.tr(n.Args[2])
			if lo.K == nil || hi.K == nil {
				break
			}
			var out []topPart
			for k := lo.K.Int64(); k < hi.K.Int64(); k++ {
				c := e.child()
				c.vars[v.Name] = Val{T: e.g.ilit64(k), S: e.g.idx(), K: big.NewInt(k)}
				for _, p := range c.topParts(n.Args[3]) {
					out = append(out, topPart{Suffix: fmt.Sprintf(".%s%d%s", v.Name, k, p.Suffix), T: p.T})
				}
			}
			if len(out) > 0 {
				return out
			}
		}
	case *EBin:
		if n.Op == "==>" {
			ps := e.topParts(n.Y)
			if len(ps) > 1 {
				gd := e.trBool(n.X)
				for i := range ps {
					ps[i].T = fmt.Sprintf("(=> %s %s)", gd, ps[i].T)
				}
				return ps
			}
		}
	}
	return []topPart{{T: e.trBool(x)}}
}

// mergeForall: (forall ((v S)) (=> rng (forall (B...) (=> rng2 body)))) is written with one binder list
// (forall ((v S) B...) (=> (and rng rng2) body)): the back ends then pick multi-patterns over both variables, which is far more
// robust for pairwise facts such as sortedness than two nested single-variable quantifiers.
func mergeForall(v, sort, rng, inner string) string {
	const pre = "(forall ("
	if os.Getenv("GOVC_NOMERGE") == "" && strings.HasPrefix(inner, pre) && !strings.Contains(inner, ":pattern") {
		// find the end of the binder list
		depth, i := 1, len(pre)
		for ; i < len(inner) && depth > 0; i++ {
			switch inner[i] {
			case '(':
				depth++
			case ')':
				depth--
			}
		}
		binders := inner[len(pre) : i-1]
		rest := strings.TrimSpace(inner[i : len(inner)-1])
		if strings.HasPrefix(rest, "(=> ") {
			// split "(=> A B)" at the top level
			j, d := 4, 0
			for ; j < len(rest); j++ {
				if rest[j] == '(' {
					d++
				} else if rest[j] == ')' {
					d--
					if d == 0 {
						j++
						break
					}
				} else if rest[j] == ' ' && d == 0 {
					break
				}
			}
			a := strings.TrimSpace(rest[4:j])
			b := strings.TrimSpace(rest[j : len(rest)-1])
			if a != "" && b != "" {
				return fmt.Sprintf("(forall ((%s %s) %s) (=> (and %s %s) %s))", v, sort, binders, rng, a, b)
			}
		}
	}
	return fmt.Sprintf("(forall ((%s %s)) (=> %s %s))", v, sort, rng, inner)
}
