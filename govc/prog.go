package main

import (
	"fmt"
	"go/token"
	"go/types"
	"os"
	"path/filepath"
	"sort"
	"strconv"
	"strings"

	"golang.org/x/tools/go/packages"
	"golang.org/x/tools/go/ssa"
	"golang.org/x/tools/go/ssa/ssautil"
)

const modulePath = "github.com/XiaoMi/Gaea"

var repoRoot = "/repo"

type Prog struct {
	fset      *token.FileSet
	pkgs      []*packages.Package
	ssaProg   *ssa.Program
	ssaPkgs   map[string]*ssa.Package
	contracts map[string]*PkgContracts // by package path
	allTypes  []*types.Package
	typesBy   map[string]*types.Package
	loadSecs  float64
}

func relPath(p string) string {
	if r, err := filepath.Rel(repoRoot, p); err == nil && !strings.HasPrefix(r, "..") {
		return r
	}
	return p
}

// findContractFiles lists every zz_verif_contracts.go under the repository.
func findContractFiles() (map[string]string, error) {
	out := map[string]string{}
	err := filepath.Walk(repoRoot, func(p string, info os.FileInfo, err error) error {
		if err != nil {
			return nil
		}
		if info.IsDir() && (info.Name() == ".git" || info.Name() == "vendor" || info.Name() == "node_modules") {
			return filepath.SkipDir
		}
		if !info.IsDir() && info.Name() == "zz_verif_contracts.go" {
			rel, _ := filepath.Rel(repoRoot, filepath.Dir(p))
			pp := modulePath
			if rel != "." {
				pp = modulePath + "/" + filepath.ToSlash(rel)
			}
			out[pp] = p
		}
		return nil
	})
	return out, err
}

func loadContracts() (map[string]*PkgContracts, error) {
	files, err := findContractFiles()
	if err != nil {
		return nil, err
	}
	out := map[string]*PkgContracts{}
	for pp, f := range files {
		pc, err := ParseContractFile(f, pp)
		if err != nil {
			return nil, err
		}
		out[pp] = pc
	}
	return out, nil
}

func LoadProg(pkgPaths []string, contracts map[string]*PkgContracts) (*Prog, error) {
	cfg := &packages.Config{
		Mode:       packages.LoadAllSyntax,
		Dir:        repoRoot,
		BuildFlags: []string{"-tags=verif"},
		Env:        append(os.Environ(), "GOFLAGS=-mod=mod", "GOPROXY=off", "GOSUMDB=off", "GOTOOLCHAIN=local"),
		Tests:      false,
	}
	pkgs, err := packages.Load(cfg, pkgPaths...)
	if err != nil {
		return nil, err
	}
	var errs []string
	for _, p := range pkgs {
		for _, e := range p.Errors {
			errs = append(errs, e.Error())
		}
	}
	if len(errs) > 0 {
		return nil, fmt.Errorf("package load errors:\n%s", strings.Join(errs, "\n"))
	}
	prog, spkgs := ssautil.AllPackages(pkgs, ssa.GlobalDebug|ssa.InstantiateGenerics)
	p := &Prog{fset: prog.Fset, pkgs: pkgs, ssaProg: prog, ssaPkgs: map[string]*ssa.Package{}, contracts: contracts, typesBy: map[string]*types.Package{}}
	for i, sp := range spkgs {
		if sp == nil {
			continue
		}
		sp.Build()
		p.ssaPkgs[pkgs[i].PkgPath] = sp
	}
	for _, sp := range prog.AllPackages() {
		p.allTypes = append(p.allTypes, sp.Pkg)
		p.typesBy[sp.Pkg.Path()] = sp.Pkg
	}
	sort.Slice(p.allTypes, func(i, j int) bool { return p.allTypes[i].Path() < p.allTypes[j].Path() })
	return p, nil
}

func (p *Prog) allTypesPkgs() []*types.Package { return p.allTypes }

// sortedContracts: contract files in a deterministic order (SMT scripts must not depend on map order).
func (p *Prog) sortedContracts() []*PkgContracts {
	var ks []string
	for k := range p.contracts {
		ks = append(ks, k)
	}
	sort.Strings(ks)
	var out []*PkgContracts
	for _, k := range ks {
		out = append(out, p.contracts[k])
	}
	return out
}

func (p *Prog) typesPkg(path string) *types.Package { return p.typesBy[path] }

// findFunc resolves a contract name (F, (T).M, (*T).M, F$1) in an SSA package.
func (p *Prog) findFunc(sp *ssa.Package, name string) *ssa.Function {
	var found *ssa.Function
	check := func(f *ssa.Function) {
		if f != nil && f.RelString(sp.Pkg) == name {
			found = f
		}
	}
	var visit func(f *ssa.Function)
	visit = func(f *ssa.Function) {
		check(f)
		for _, a := range f.AnonFuncs {
			visit(a)
		}
	}
	for _, m := range sp.Members {
		switch x := m.(type) {
		case *ssa.Function:
			visit(x)
		case *ssa.Type:
			for _, t := range []types.Type{x.Type(), types.NewPointer(x.Type())} {
				ms := p.ssaProg.MethodSets.MethodSet(t)
				for i := 0; i < ms.Len(); i++ {
					f := p.ssaProg.MethodValue(ms.At(i))
					if f != nil && f.Pkg == sp && f.Synthetic == "" {
						visit(f)
					}
				}
			}
		}
	}
	return found
}

// findContract: contract for a call (package contract, interface contract or trusted).
func (p *Prog) findContract(c *ssa.CallCommon, callee *ssa.Function, fullName string) (*FuncContract, *PkgContracts) {
	if c.IsInvoke() {
		// interface method: iface decl "T.M" in the package that declares the interface, or trusted by full name
		if named, ok := c.Value.Type().(*types.Named); ok && named.Obj().Pkg() != nil {
			if pc := p.contracts[named.Obj().Pkg().Path()]; pc != nil {
				if fc := pc.Funcs[named.Obj().Name()+"."+c.Method.Name()]; fc != nil && fc.Kind == "iface" {
					return fc, pc
				}
			}
		}
		// method declared in an embedded interface
		if sig, ok := c.Method.Type().(*types.Signature); ok && sig.Recv() != nil {
			if named, ok := sig.Recv().Type().(*types.Named); ok && named.Obj().Pkg() != nil {
				if pc := p.contracts[named.Obj().Pkg().Path()]; pc != nil {
					if fc := pc.Funcs[named.Obj().Name()+"."+c.Method.Name()]; fc != nil && fc.Kind == "iface" {
						return fc, pc
					}
				}
			}
		}
		for _, pc := range p.sortedContracts() {
			if fc := pc.Trusted[fullName]; fc != nil {
				return fc, pc
			}
		}
		return nil, nil
	}
	if callee == nil {
		return nil, nil
	}
	if callee.Pkg != nil {
		if pc := p.contracts[callee.Pkg.Pkg.Path()]; pc != nil {
			if fc := pc.Funcs[callee.RelString(callee.Pkg.Pkg)]; fc != nil && fc.Kind == "func" {
				return fc, pc
			}
		}
	} else if callee.Parent() != nil && callee.Parent().Pkg != nil {
		pk := callee.Parent().Pkg
		if pc := p.contracts[pk.Pkg.Path()]; pc != nil {
			if fc := pc.Funcs[callee.RelString(pk.Pkg)]; fc != nil {
				return fc, pc
			}
		}
	}
	for _, pc := range p.sortedContracts() {
		if fc := pc.Trusted[fullName]; fc != nil {
			return fc, pc
		}
	}
	return nil, nil
}

func newFnGen(p *Prog, fn *ssa.Function, fc *FuncContract, pc *PkgContracts) *FnGen {
	pkgName := ""
	if fn.Pkg != nil {
		pkgName = fn.Pkg.Pkg.Name()
	} else if fn.Parent() != nil && fn.Parent().Pkg != nil {
		pkgName = fn.Parent().Pkg.Pkg.Name()
	}
	g := newFnGenRaw(p, fc, pc, pkgName)
	g.fn = fn
	return g
}

func newFnGenRaw(p *Prog, fc *FuncContract, pc *PkgContracts, pkgName string) *FnGen {
	mode := fc.Mode
	if mode == "" {
		mode = "int"
	}
	return &FnGen{prog: p, fc: fc, pc: pc, mode: mode, fname: pkgName + "." + fc.Name,
		declared: map[string]bool{}, famSort: map[string]string{}, famVer: map[string]int{},
		vals: map[ssa.Value]Val{}, blockR: map[*ssa.BasicBlock]string{}, exit: map[*ssa.BasicBlock]*State{},
		kindCnt: map[string]int{}, notes: map[string]bool{}, structDT: map[string]string{}, tagIDs: map[string]int{},
		tagTypes: map[int]types.Type{}, strLits: map[string]string{}, params: map[string]Val{}, callCnt: map[string]int{},
		ghost: map[string]string{}, ghostSort: map[string]string{}, ghostType: map[string]types.Type{},
		epochParents: map[int][]epochParent{}, epochAllocLo: map[int][]string{}, debugAddr: map[ssa.Value]bool{},
		ranges: map[*ssa.Range]*rangeState{}}
}

// GenFunc generates the obligations of one function; an UnsupportedErr is returned as error.
// GenFuncAll: one generator per instantiation value (a single one without an `instantiate` clause).
func GenFuncAll(p *Prog, fn *ssa.Function, fc *FuncContract, pc *PkgContracts) ([]*FnGen, error) {
	if fc.InstName == "" {
		g, err := GenFunc(p, fn, fc, pc, nil)
		return []*FnGen{g}, err
	}
	var gs []*FnGen
	hi := fc.InstHi
	// development aid (selftest of must-fail mutants): cap the instantiation range; a capped run is never a registered check
	if s := os.Getenv("GOVC_INST_MAX"); s != "" {
		if n, err := strconv.Atoi(s); err == nil && n >= fc.InstLo && n < hi {
			hi = n
		}
	}
	for k := fc.InstLo; k <= hi; k++ {
		g, err := GenFunc(p, fn, fc, pc, map[string]int64{fc.InstName: int64(k)})
		if err != nil {
			return gs, err
		}
		gs = append(gs, g)
	}
	return gs, nil
}

func GenFunc(p *Prog, fn *ssa.Function, fc *FuncContract, pc *PkgContracts, inst map[string]int64) (g *FnGen, err error) {
	g = newFnGen(p, fn, fc, pc)
	g.inst = inst
	for _, k := range sortedKeysI(inst) {
		g.fname += fmt.Sprintf("[%s=%d]", k, inst[k])
	}
	defer func() {
		if r := recover(); r != nil {
			if u, ok := r.(UnsupportedErr); ok {
				err = fmt.Errorf("%s: %s", g.fname, u.Msg)
				return
			}
			panic(r)
		}
	}()
	if len(fn.Blocks) == 0 {
		return g, fmt.Errorf("%s: no body", g.fname)
	}
	g.run()
	return g, nil
}

// GenLemma: a lemma over spec functions only (no code): one obligation.
func GenLemma(p *Prog, pc *PkgContracts, name string) (g *FnGen, err error) {
	var lm *Lemma
	for i := range pc.Lemmas {
		if pc.Lemmas[i].Name == name {
			lm = &pc.Lemmas[i]
		}
	}
	if lm == nil {
		return nil, fmt.Errorf("no lemma %s in %s", name, pc.File)
	}
	fc := &FuncContract{PkgPath: pc.PkgPath, Name: "lemma:" + name, Kind: "lemma", Mode: lm.Mode}
	g = newFnGenRaw(p, fc, pc, pc.PkgPath[strings.LastIndex(pc.PkgPath, "/")+1:])
	defer func() {
		if r := recover(); r != nil {
			if u, ok := r.(UnsupportedErr); ok {
				err = fmt.Errorf("%s: %s", g.fname, u.Msg)
				return
			}
			panic(r)
		}
	}()
	g.init = &State{h: map[string]string{}}
	g.famInit("$alloc", "Int")
	g.cur = g.init.clone()
	g.curR = "true"
	g.emitAxioms()
	env := &Env{g: g, vars: map[string]Val{}, cur: g.cur, old: g.init, pkg: p.typesPkg(pc.PkgPath), pcs: []*PkgContracts{pc}}
	g.addCover("entry", "entry")
	g.oblige("lemma", "lemma", env.trBool(lm.E), lm.Src, token.NoPos)
	return g, nil
}

func sortedKeysI(m map[string]int64) []string {
	var ks []string
	for k := range m {
		ks = append(ks, k)
	}
	sort.Strings(ks)
	return ks
}
