package main

// VC generation from go/ssa: passive-form encoding of one function under contract.

import (
	"fmt"
	"go/constant"
	"go/token"
	"go/types"
	"math/big"
	"regexp"
	"sort"
	"strings"

	"golang.org/x/tools/go/ssa"
)

type Val struct {
	T     string     // SMT term
	S     string     // SMT sort
	GT    types.Type // Go type, nil for untyped constants
	K     *big.Int   // constant integer value when known
	Addr  *Addr      // interior pointer descriptor (FieldAddr/IndexAddr/Alloc results)
	Tuple []Val
}

type pathStep struct {
	field  int    // struct field ordinal, or -1
	st     types.Type
	arrIdx string // array index term when field == -1
	elemT  types.Type
}

type Addr struct {
	Fam  string
	Ref  string
	Idx  string // for Elem families
	Path []pathStep
	T    types.Type // pointee type
}

type State struct {
	h     map[string]string // family -> current term
	epoch int               // families absent from h are at version fam@e<epoch>
}

type epochParent struct {
	cond  string
	epoch int
}

func (s *State) clone() *State {
	n := &State{h: make(map[string]string, len(s.h)), epoch: s.epoch}
	for k, v := range s.h {
		n.h[k] = v
	}
	return n
}

type Oblig struct {
	Name    string
	Kind    string
	Fn      string
	Pos     string
	Clause  string
	Guard   string
	Goal    string
	nAssume int
	gen     *FnGen
	// results
	Status  string // discharged | failed | undischarged | known
	Solver  string
	Ms      int64
	Output  string
	Model   map[string]string
	SmtFile string
	Extra   []string // extra assumptions (residual obligations of known findings)
	Budget  int      // >0: single race with this timeout (known findings)
	PkgPath string   // package of the function (frame obligations)
	Bytes   int
	uses    map[string]bool // non-nil: labelled invariant assumptions outside this set are left out
}

type UnsupportedErr struct{ Msg string }

func (e UnsupportedErr) Error() string { return e.Msg }

type FnGen struct {
	varargs map[string]map[string]string // temp arrays of variadic calls (ssa Alloc "varargs"): ref -> index -> stored value
	inst map[string]int64 // instantiation constants (contract clause `instantiate`)
	prog     *Prog
	fn       *ssa.Function
	fc       *FuncContract
	pc       *PkgContracts
	mode     string
	fname    string
	preludeX []string          // extra sort/datatype declarations (before decls)
	decls    []string
	declared map[string]bool
	famSort  map[string]string // family -> sort
	famVer   map[string]int
	assumes  []string
	obls     []*Oblig
	vals     map[ssa.Value]Val
	blockR   map[*ssa.BasicBlock]string
	exit     map[*ssa.BasicBlock]*State
	entrySt  map[*ssa.BasicBlock]*State
	cur      *State
	init     *State // pre-state (old)
	curR     string // reachability of the current program point
	nfresh   int
	kindCnt  map[string]int
	notes    map[string]bool // assumptions / havocked callees (for evidence)
	structDT map[string]string
	tagIDs   map[string]int
	strLits  map[string]string
	params   map[string]Val
	paramOrder []string
	results  []string // named results
	loops    []*loopInfo
	loopOf   map[*ssa.BasicBlock]*loopInfo // header -> loop
	defers   []*deferRec
	callCnt  map[string]int
	ghost    map[string]string // ghost var -> family name (Glob-like)
	debugVar map[string][]ssa.Value
	retIdx   int
	localNames map[string]Val
	epochParents map[int][]epochParent
	epochAllocLo map[int][]string
	nEpoch    int
	ghostSort map[string]string
	ghostType map[string]types.Type
	assumeTag map[int]string  // assumption index -> label of the loop invariant it states
	curTag    string
	curUses   map[string]bool
	implPreds []implPred
	dry       bool
	phiOverride map[*ssa.Phi]Val
	debugAddr map[ssa.Value]bool
	tagTypes  map[int]types.Type
	dryHeader *ssa.BasicBlock
	ranges    map[*ssa.Range]*rangeState
	covers    []coverPoint
	curBlock  *ssa.BasicBlock
	constGlobals map[string]bool
}

var bigOne = big.NewInt(1)

type deferRec struct {
	flag string
	call *ssa.Defer
	args []Val
	blk  *ssa.BasicBlock
}

type loopInfo struct {
	header *ssa.BasicBlock
	blocks map[*ssa.BasicBlock]bool
	ord    int
	spec   *LoopSpec
	phiVars map[string]*ssa.Phi
	allocEntry string       // $alloc when the loop was entered (for `assigns \local`)
	mod    map[string]bool // heap families the loop body modifies (from the dry run); nil before the header was processed
	modAll bool
}

func (g *FnGen) unsupported(f string, a ...interface{}) {
	panic(UnsupportedErr{fmt.Sprintf(f, a...)})
}

func (g *FnGen) note(s string) { g.notes[s] = true }

func (g *FnGen) fresh(prefix, sort string) string {
	g.nfresh++
	n := fmt.Sprintf("%s!%d", sanitize(prefix), g.nfresh)
	g.decls = append(g.decls, fmt.Sprintf("(declare-const %s %s)", n, sort))
	return n
}

func sanitize(s string) string {
	var b strings.Builder
	for _, c := range s {
		if (c >= 'a' && c <= 'z') || (c >= 'A' && c <= 'Z') || (c >= '0' && c <= '9') || c == '_' || c == '.' || c == '$' {
			b.WriteRune(c)
		} else {
			b.WriteByte('_')
		}
	}
	return b.String()
}

func (g *FnGen) assume(t string) {
	if t == "true" {
		return
	}
	g.assumes = append(g.assumes, t)
}

// assumeHere adds an assumption guarded by the current reachability condition.
func (g *FnGen) assumeHere(t string) {
	if t == "true" {
		return
	}
	if g.curR == "true" || g.curR == "" {
		g.assume(t)
	} else {
		g.assume(fmt.Sprintf("(=> %s %s)", g.curR, t))
	}
}

func (g *FnGen) oblige(kind, name, goal, clause string, pos token.Pos) *Oblig {
	o := &Oblig{Name: g.fname + "/" + name, Kind: kind, Fn: g.fname, Guard: g.curR, Goal: goal, Clause: clause,
		nAssume: len(g.assumes), gen: g}
	if pos.IsValid() {
		p := g.prog.fset.Position(pos)
		o.Pos = fmt.Sprintf("%s:%d", relPath(p.Filename), p.Line)
	}
	if g.curUses != nil {
		o.uses = g.curUses
	}
	g.obls = append(g.obls, o)
	// assert-then-assume
	n0 := len(g.assumes)
	g.assumeHere(goal)
	if g.curTag != "" && len(g.assumes) > n0 {
		g.tagAssume(len(g.assumes)-1, g.curTag)
	}
	return o
}

func (g *FnGen) tagAssume(i int, tag string) {
	if g.dry {
		return // the dry run works on a clone that shares this map
	}
	if g.assumeTag == nil {
		g.assumeTag = map[int]string{}
	}
	g.assumeTag[i] = tag
}

// shiftTags: k assumptions were prepended
func (g *FnGen) shiftTags(k int) {
	if g.dry || len(g.assumeTag) == 0 {
		return
	}
	n := map[int]string{}
	for i, t := range g.assumeTag {
		n[i+k] = t
	}
	g.assumeTag = n
}

// setUses: hypotheses selection of the clause being checked (nil = all)
func (g *FnGen) setUses(c Clause) {
	g.curUses = nil
	if c.HasUses {
		g.curUses = map[string]bool{c.Label: true}
		for _, u := range c.Uses {
			g.curUses[u] = true
		}
	}
}

// assumesFor: the assumptions in force at the obligation, minus labelled invariants its clause does not use.
func (g *FnGen) assumesFor(o *Oblig) []string {
	if o.uses == nil {
		return g.assumes[:o.nAssume]
	}
	var out []string
	for i, a := range g.assumes[:o.nAssume] {
		if t, ok := g.assumeTag[i]; ok && !o.uses[t] {
			continue
		}
		out = append(out, a)
	}
	return out
}

func (g *FnGen) ordName(kind string) string {
	n := g.kindCnt[kind]
	g.kindCnt[kind] = n + 1
	return fmt.Sprintf("%s#%d", kind, n)
}

// ---------------------------------------------------------------- sorts

func (g *FnGen) isort(bits int) string {
	if g.mode == "bv" {
		return fmt.Sprintf("(_ BitVec %d)", bits)
	}
	return "Int"
}

func (g *FnGen) idx() string { return g.isort(64) }

func intInfo(t types.Type) (bits int, signed bool, ok bool) {
	b, isb := t.Underlying().(*types.Basic)
	if !isb {
		return 0, false, false
	}
	switch b.Kind() {
	case types.Int, types.Int64, types.UntypedInt, types.UntypedRune:
		return 64, true, true
	case types.Int8:
		return 8, true, true
	case types.Int16:
		return 16, true, true
	case types.Int32:
		return 32, true, true
	case types.Uint, types.Uint64, types.Uintptr:
		return 64, false, true
	case types.Uint8:
		return 8, false, true
	case types.Uint16:
		return 16, false, true
	case types.Uint32:
		return 32, false, true
	}
	return 0, false, false
}

var byteRe = regexp.MustCompile(`\bbyte\b`)
var runeRe = regexp.MustCompile(`\brune\b`)

func typeKey(t types.Type) string {
	s := types.TypeString(t, func(p *types.Package) string { return p.Name() })
	s = byteRe.ReplaceAllString(s, "uint8")
	s = runeRe.ReplaceAllString(s, "int32")
	return sanitize(s)
}

func (g *FnGen) sortOf(t types.Type) string {
	switch u := t.Underlying().(type) {
	case *types.Basic:
		if bits, _, ok := intInfo(u); ok {
			return g.isort(bits)
		}
		switch {
		case u.Info()&types.IsBoolean != 0:
			return "Bool"
		case u.Info()&types.IsString != 0:
			return "Str"
		case u.Info()&types.IsFloat != 0:
			return "F64"
		case u.Kind() == types.UnsafePointer:
			return "Int"
		case u.Kind() == types.UntypedNil:
			return "Int"
		}
		return "Int"
	case *types.Slice:
		return "Slice"
	case *types.Pointer, *types.Map, *types.Chan, *types.Signature:
		return "Int"
	case *types.Interface:
		return "Iface"
	case *types.Struct:
		return g.structSort(t, u)
	case *types.Array:
		return fmt.Sprintf("(Array %s %s)", g.idx(), g.sortOf(u.Elem()))
	case *types.Tuple:
		return "Tuple"
	}
	g.unsupported("sort of type %s", t)
	return ""
}

func (g *FnGen) structSort(t types.Type, st *types.Struct) string {
	key := typeKey(t)
	if n, ok := g.structDT[key]; ok {
		return n
	}
	name := fmt.Sprintf("S%d_%s", len(g.structDT), key)
	if len(name) > 60 {
		name = name[:60]
	}
	g.structDT[key] = name
	if st.NumFields() == 0 {
		g.preludeX = append(g.preludeX, fmt.Sprintf("(declare-datatypes ((%s 0)) (((mk-%s))))", name, name))
		return name
	}
	var fs []string
	for i := 0; i < st.NumFields(); i++ {
		fs = append(fs, fmt.Sprintf("(%s-f%d %s)", name, i, g.sortOf(st.Field(i).Type())))
	}
	g.preludeX = append(g.preludeX, fmt.Sprintf("(declare-datatypes ((%s 0)) (((mk-%s %s))))", name, name, strings.Join(fs, " ")))
	return name
}

// ---------------------------------------------------------------- integer literals and ops

func (g *FnGen) ilit(v *big.Int, bits int) string {
	if g.mode == "bv" {
		m := new(big.Int).Lsh(big.NewInt(1), uint(bits))
		x := new(big.Int).Mod(v, m)
		return fmt.Sprintf("(_ bv%s %d)", x.String(), bits)
	}
	if v.Sign() < 0 {
		return fmt.Sprintf("(- %s)", new(big.Int).Neg(v).String())
	}
	return v.String()
}

func (g *FnGen) ilit64(n int64) string { return g.ilit(big.NewInt(n), 64) }

func (g *FnGen) intConst(v *big.Int, t types.Type) Val {
	bits, _, ok := intInfo(t)
	if !ok {
		g.unsupported("integer constant of type %s", t)
	}
	return Val{T: g.ilit(v, bits), S: g.isort(bits), GT: t, K: v}
}

func typeRange(bits int, signed bool) (lo, hi *big.Int) {
	if signed {
		hi = new(big.Int).Sub(new(big.Int).Lsh(big.NewInt(1), uint(bits-1)), big.NewInt(1))
		lo = new(big.Int).Neg(new(big.Int).Lsh(big.NewInt(1), uint(bits-1)))
		return
	}
	lo = big.NewInt(0)
	hi = new(big.Int).Sub(new(big.Int).Lsh(big.NewInt(1), uint(bits)), big.NewInt(1))
	return
}

// rangeFact returns the SMT condition "t is in the range of Go type gt" (int mode); "true" otherwise.
func (g *FnGen) rangeFact(t string, gt types.Type) string {
	if g.mode != "int" {
		return "true"
	}
	bits, signed, ok := intInfo(gt)
	if !ok {
		return "true"
	}
	lo, hi := typeRange(bits, signed)
	return fmt.Sprintf("(and (<= %s %s) (<= %s %s))", g.ilit(lo, bits), t, t, g.ilit(hi, bits))
}

const maxLenLog = 48 // a Go allocation cannot exceed 2^48 bytes on amd64; listed in the trusted base

// typeFacts: type invariants of an unknown value of Go type gt (params, loads, call results, havocked values).
func (g *FnGen) typeFacts(v Val, gt types.Type) string {
	if gt == nil {
		return "true"
	}
	switch u := gt.Underlying().(type) {
	case *types.Basic:
		if u.Info()&types.IsString != 0 {
			return "true"
		}
		return g.rangeFact(v.T, gt)
	case *types.Slice:
		z := g.ilit64(0)
		mx := g.ilit(new(big.Int).Lsh(big.NewInt(1), maxLenLog), 64)
		le := g.cmp("<=", true)
		return fmt.Sprintf("(and (<= 0 (s-ref %[1]s)) (%[2]s %[3]s (s-off %[1]s)) (%[2]s %[3]s (s-len %[1]s)) (%[2]s (s-len %[1]s) (s-cap %[1]s)) (%[2]s (s-cap %[1]s) %[4]s) (%[2]s (s-off %[1]s) %[4]s) (=> (= (s-ref %[1]s) 0) (= (s-cap %[1]s) %[3]s)))",
			v.T, le, z, mx)
	case *types.Pointer, *types.Map:
		return fmt.Sprintf("(<= 0 %s)", v.T)
	}
	return "true"
}

func (g *FnGen) cmp(op string, signed bool) string {
	if g.mode == "int" {
		return op
	}
	m := map[string]string{"<": "bvslt", "<=": "bvsle", ">": "bvsgt", ">=": "bvsge"}
	if !signed {
		m = map[string]string{"<": "bvult", "<=": "bvule", ">": "bvugt", ">=": "bvuge"}
	}
	return m[op]
}

// arith builds x op y for integer operands of Go type t (already same sort).
// Returns the term and, in int mode, an optional overflow goal.
func (g *FnGen) arith(op token.Token, x, y Val, t types.Type) (string, string) {
	bits, signed, ok := intInfo(t)
	if !ok {
		g.unsupported("arithmetic on %s", t)
	}
	if g.mode == "bv" {
		var f string
		switch op {
		case token.ADD:
			f = "bvadd"
		case token.SUB:
			f = "bvsub"
		case token.MUL:
			f = "bvmul"
		case token.QUO:
			f = "bvudiv"
			if signed {
				f = "bvsdiv"
			}
		case token.REM:
			f = "bvurem"
			if signed {
				f = "bvsrem"
			}
		case token.AND:
			f = "bvand"
		case token.OR:
			f = "bvor"
		case token.XOR:
			f = "bvxor"
		case token.AND_NOT:
			return fmt.Sprintf("(bvand %s (bvnot %s))", x.T, y.T), ""
		default:
			g.unsupported("bv op %s", op)
		}
		return fmt.Sprintf("(%s %s %s)", f, x.T, y.T), ""
	}
	// int mode
	var term string
	switch op {
	case token.ADD:
		term = fmt.Sprintf("(+ %s %s)", x.T, y.T)
	case token.SUB:
		term = fmt.Sprintf("(- %s %s)", x.T, y.T)
	case token.MUL:
		term = fmt.Sprintf("(* %s %s)", x.T, y.T)
	case token.QUO:
		if !signed {
			return fmt.Sprintf("(div %s %s)", x.T, y.T), ""
		}
		term = fmt.Sprintf("(ite (>= %[1]s 0) (div %[1]s %[2]s) (- (div (- %[1]s) %[2]s)))", x.T, y.T)
	case token.REM:
		if !signed {
			return fmt.Sprintf("(mod %s %s)", x.T, y.T), ""
		}
		// Go's remainder has the sign of the dividend; for x >= 0 and y > 0 it is SMT's mod (kept linear for the solver)
		q := fmt.Sprintf("(ite (>= %[1]s 0) (div %[1]s %[2]s) (- (div (- %[1]s) %[2]s)))", x.T, y.T)
		return fmt.Sprintf("(ite (and (>= %[1]s 0) (> %[2]s 0)) (mod %[1]s %[2]s) (- %[1]s (* %[2]s %[3]s)))", x.T, y.T, q), ""
	case token.AND:
		// only masks 2^k-1
		if y.K != nil {
			k := new(big.Int).Add(y.K, big.NewInt(1))
			if y.K.Sign() >= 0 && new(big.Int).And(k, y.K).Sign() == 0 {
				return fmt.Sprintf("(mod %s %s)", x.T, k.String()), ""
			}
		}
		if x.K != nil {
			k := new(big.Int).Add(x.K, big.NewInt(1))
			if x.K.Sign() >= 0 && new(big.Int).And(k, x.K).Sign() == 0 {
				return fmt.Sprintf("(mod %s %s)", y.T, k.String()), ""
			}
		}
		// single-bit masks: x & 2^k = bit_k(x) * 2^k, with bit_k(x) = (x div 2^k) mod 2 (floor division: also right for negative
		// two's-complement values); x & ^(2^k) (the all-ones constant of the type with bit k cleared) = x - bit_k(x) * 2^k
		if r, ok := g.singleBitAnd(x, y, bits, signed); ok {
			return r, ""
		}
		if r, ok := g.singleBitAnd(y, x, bits, signed); ok {
			return r, ""
		}
		fallthrough
	case token.OR, token.XOR, token.AND_NOT:
		if y.K != nil && y.K.Sign() > 0 && new(big.Int).And(y.K, new(big.Int).Sub(y.K, big.NewInt(1))).Sign() == 0 {
			bit := fmt.Sprintf("(mod (div %s %s) 2)", x.T, y.K.String())
			switch op {
			case token.AND_NOT:
				return fmt.Sprintf("(- %s (* %s %s))", x.T, bit, y.K.String()), ""
			case token.OR:
				return fmt.Sprintf("(+ %s (* (- 1 %s) %s))", x.T, bit, y.K.String()), ""
			}
		}
		// uninterpreted in int mode: fresh value in the type's range (sound over-approximation)
		f := "bitop_" + sanitize(op.String()) + fmt.Sprintf("_%d", bits)
		if !g.declared[f] {
			g.declared[f] = true
			g.decls = append(g.decls, fmt.Sprintf("(declare-fun %s (Int Int) Int)", f))
		}
		g.note("int mode: bit operation " + op.String() + " treated as uninterpreted function")
		r := fmt.Sprintf("(%s %s %s)", f, x.T, y.T)
		g.assume(g.rangeFact(r, t))
		return r, ""
	default:
		g.unsupported("int op %s", op)
	}
	lo, hi := typeRange(bits, signed)
	ovf := fmt.Sprintf("(and (<= %s %s) (<= %s %s))", g.ilit(lo, bits), term, term, g.ilit(hi, bits))
	if op == token.QUO {
		// only MinInt / -1 overflows
		return term, ovf
	}
	return term, ovf
}

func (g *FnGen) shift(op token.Token, x, y Val, t types.Type, pos token.Pos) string {
	bits, signed, _ := intInfo(t)
	ybits, ysigned := 64, false
	if y.GT != nil {
		ybits, ysigned, _ = intInfo(y.GT)
	}
	if g.mode == "bv" {
		yt := y.T
		if y.K != nil {
			if y.K.Cmp(big.NewInt(int64(bits))) >= 0 {
				if op == token.SHL || !signed {
					return g.ilit(big.NewInt(0), bits)
				}
				return fmt.Sprintf("(bvashr %s %s)", x.T, g.ilit(big.NewInt(int64(bits-1)), bits))
			}
			yt = g.ilit(y.K, bits)
		} else {
			if ysigned {
				g.oblige("safety", g.ordName("safety/shift"), fmt.Sprintf("(bvsge %s %s)", y.T, g.ilit(big.NewInt(0), ybits)), "shift count >= 0", pos)
			}
			if ybits < bits {
				yt = fmt.Sprintf("((_ zero_extend %d) %s)", bits-ybits, y.T)
			} else if ybits > bits {
				// saturate
				big_ := fmt.Sprintf("(bvuge %s %s)", y.T, g.ilit(big.NewInt(int64(bits)), ybits))
				yt = fmt.Sprintf("(ite %s %s ((_ extract %d 0) %s))", big_, g.ilit(big.NewInt(int64(bits)), bits), bits-1, y.T)
			}
		}
		switch {
		case op == token.SHL:
			return fmt.Sprintf("(bvshl %s %s)", x.T, yt)
		case signed:
			return fmt.Sprintf("(bvashr %s %s)", x.T, yt)
		default:
			return fmt.Sprintf("(bvlshr %s %s)", x.T, yt)
		}
	}
	if y.K == nil {
		g.unsupported("int mode: shift by non-constant")
	}
	p := new(big.Int).Lsh(big.NewInt(1), uint(y.K.Int64()))
	if op == token.SHL {
		term := fmt.Sprintf("(* %s %s)", x.T, p.String())
		if !g.fc.NoOverflow {
			lo, hi := typeRange(bits, signed)
			g.oblige("overflow", g.ordName("overflow/shl"), fmt.Sprintf("(and (<= %s %s) (<= %s %s))", g.ilit(lo, bits), term, term, g.ilit(hi, bits)), "shift does not overflow", pos)
		}
		return term
	}
	return fmt.Sprintf("(div %s %s)", x.T, p.String())
}

// convertInt converts integer value x (Go type from) to Go type to.
func (g *FnGen) convertInt(x Val, from, to types.Type) Val {
	fb, fs, _ := intInfo(from)
	tb, ts, _ := intInfo(to)
	r := Val{S: g.isort(tb), GT: to}
	if x.K != nil {
		// constant folding with wrap
		m := new(big.Int).Lsh(big.NewInt(1), uint(tb))
		v := new(big.Int).Mod(x.K, m)
		if ts && v.Cmp(new(big.Int).Rsh(m, 1)) >= 0 {
			v.Sub(v, m)
		}
		return g.intConst(v, to)
	}
	if g.mode == "bv" {
		switch {
		case tb == fb:
			r.T = x.T
		case tb < fb:
			r.T = fmt.Sprintf("((_ extract %d 0) %s)", tb-1, x.T)
		case fs:
			r.T = fmt.Sprintf("((_ sign_extend %d) %s)", tb-fb, x.T)
		default:
			r.T = fmt.Sprintf("((_ zero_extend %d) %s)", tb-fb, x.T)
		}
		return r
	}
	flo, fhi := typeRange(fb, fs)
	tlo, thi := typeRange(tb, ts)
	if flo.Cmp(tlo) >= 0 && fhi.Cmp(thi) <= 0 {
		r.T = x.T
		return r
	}
	m := new(big.Int).Lsh(big.NewInt(1), uint(tb))
	if !ts {
		r.T = fmt.Sprintf("(mod %s %s)", x.T, m.String())
		return r
	}
	half := new(big.Int).Rsh(m, 1)
	r.T = fmt.Sprintf("(let ((cv!m (mod %s %s))) (ite (>= cv!m %s) (- cv!m %s) cv!m))", x.T, m.String(), half.String(), m.String())
	return r
}

// ---------------------------------------------------------------- heap

func (g *FnGen) famInit(fam, sort string) {
	if s, ok := g.famSort[fam]; ok {
		if s != sort && sort != "" {
			g.unsupported("heap family %s used at two sorts: %s vs %s", fam, s, sort)
		}
	} else {
		if sort == "" {
			g.unsupported("heap family %s used before its sort is known", fam)
		}
		g.famSort[fam] = sort
	}
}

// epochTerm: the term of family fam in a state whose map does not mention it.
func (g *FnGen) epochTerm(fam string, epoch int) string {
	n := fmt.Sprintf("%s@e%d", fam, epoch)
	if g.declared[n] {
		return n
	}
	g.declared[n] = true
	g.decls = append(g.decls, fmt.Sprintf("(declare-const %s %s)", n, g.famSort[fam]))
	for _, p := range g.epochParents[epoch] {
		g.assume(fmt.Sprintf("(=> %s (= %s %s))", p.cond, n, g.epochTerm(fam, p.epoch)))
	}
	if fam == "$alloc" {
		for _, lo := range g.epochAllocLo[epoch] {
			g.assume(fmt.Sprintf("(>= %s %s)", n, lo))
		}
		if epoch == 0 {
			g.assume(fmt.Sprintf("(> %s 0)", n))
		}
	}
	return n
}

func (g *FnGen) newEpoch() int {
	g.nEpoch++
	return g.nEpoch
}

// isConstGlobal: fam is a package-level variable declared `constglobal` in a contract file.
func (g *FnGen) isConstGlobal(fam string) bool {
	if !strings.HasPrefix(fam, "Glob_") {
		return false
	}
	if g.constGlobals == nil {
		g.constGlobals = map[string]bool{}
		for _, pc := range g.prog.sortedContracts() {
			tp := g.prog.typesPkg(pc.PkgPath)
			if tp == nil {
				continue
			}
			for _, n := range pc.ConstGlobals {
				if strings.Contains(n, ".") {
					g.constGlobals["Glob_"+sanitize(n)] = true // pkgname.Var of another package
				} else {
					g.constGlobals["Glob_"+sanitize(tp.Name()+"."+n)] = true
				}
			}
		}
	}
	return g.constGlobals[fam]
}

func (g *FnGen) heapGet(st *State, fam, sort string) string {
	g.famInit(fam, sort)
	if g.isConstGlobal(fam) {
		n := fam + "@const"
		if !g.declared[n] {
			g.declared[n] = true
			g.decls = append(g.decls, fmt.Sprintf("(declare-const %s %s)", n, g.famSort[fam]))
			g.note("constglobal " + strings.TrimPrefix(fam, "Glob_") + ": assumed never reassigned after package initialisation")
		}
		return n
	}
	if t, ok := st.h[fam]; ok {
		return t
	}
	return g.epochTerm(fam, st.epoch)
}

func (g *FnGen) heapNew(fam string) string {
	g.famVer[fam]++
	n := fmt.Sprintf("%s@%d", fam, g.famVer[fam])
	g.decls = append(g.decls, fmt.Sprintf("(declare-const %s %s)", n, g.famSort[fam]))
	return n
}

// heapSet defines a new version equal to term (keeps terms small).
func (g *FnGen) heapSet(st *State, fam, term string) {
	n := g.heapNew(fam)
	g.assume(fmt.Sprintf("(= %s %s)", n, term))
	st.h[fam] = n
}

func (g *FnGen) elemFam(elem types.Type) (string, string) {
	fam := "Elem_" + typeKey(elem)
	sort := fmt.Sprintf("(Array Int (Array %s %s))", g.idx(), g.sortOf(elem))
	return fam, sort
}

func (g *FnGen) fieldFam(st types.Type, i int) (string, string, types.Type) {
	s := st.Underlying().(*types.Struct)
	f := s.Field(i)
	fam := "Fld_" + typeKey(st) + "_" + f.Name()
	if len(fam) > 80 {
		fam = fam[:60] + fmt.Sprintf("_h%d_", hashStr(fam)) + f.Name()
	}
	return fam, fmt.Sprintf("(Array Int %s)", g.sortOf(f.Type())), f.Type()
}

func hashStr(s string) uint32 {
	var h uint32 = 2166136261
	for i := 0; i < len(s); i++ {
		h = (h ^ uint32(s[i])) * 16777619
	}
	return h
}

func (g *FnGen) cellFam(t types.Type) (string, string) {
	return "Cell_" + typeKey(t), fmt.Sprintf("(Array Int %s)", g.sortOf(t))
}

func (g *FnGen) allocRef(st *State) string {
	cur := g.heapGet(st, "$alloc", "Int")
	r := g.fresh("ref", "Int")
	g.assume(fmt.Sprintf("(= %s %s)", r, cur))
	g.heapSet(st, "$alloc", fmt.Sprintf("(+ %s 1)", cur))
	return r
}

// addrOf: descriptor for a pointer value.
func (g *FnGen) addrOf(p Val) *Addr {
	if p.Addr != nil {
		return p.Addr
	}
	pt, ok := p.GT.Underlying().(*types.Pointer)
	if !ok {
		g.unsupported("dereference of non-pointer %s", p.GT)
	}
	el := pt.Elem()
	if arr, ok := el.Underlying().(*types.Array); ok {
		fam, sort := g.elemFam(arr.Elem())
		g.famInit(fam, sort)
		return &Addr{Fam: fam, Ref: p.T, Idx: "", T: el}
	}
	if _, ok := el.Underlying().(*types.Struct); ok {
		return &Addr{Fam: "$struct", Ref: p.T, T: el}
	}
	fam, sort := g.cellFam(el)
	g.famInit(fam, sort)
	return &Addr{Fam: fam, Ref: p.T, T: el}
}

// readRoot reads the root location of an address (before the path).
func (g *FnGen) readRoot(st *State, a *Addr, rootT types.Type) string {
	switch {
	case a.Fam == "$struct":
		s := rootT.Underlying().(*types.Struct)
		name := g.sortOf(rootT)
		if s.NumFields() == 0 {
			return "mk-" + name
		}
		var parts []string
		for i := 0; i < s.NumFields(); i++ {
			fam, sort, _ := g.fieldFam(rootT, i)
			parts = append(parts, fmt.Sprintf("(select %s %s)", g.heapGet(st, fam, sort), a.Ref))
		}
		return fmt.Sprintf("(mk-%s %s)", name, strings.Join(parts, " "))
	case strings.HasPrefix(a.Fam, "Elem_") && a.Idx == "":
		// whole array value at ref
		return fmt.Sprintf("(select %s %s)", g.heapGet(st, a.Fam, g.famSort[a.Fam]), a.Ref)
	case strings.HasPrefix(a.Fam, "Elem_"):
		return fmt.Sprintf("(select (select %s %s) %s)", g.heapGet(st, a.Fam, g.famSort[a.Fam]), a.Ref, a.Idx)
	default:
		return fmt.Sprintf("(select %s %s)", g.heapGet(st, a.Fam, g.famSort[a.Fam]), a.Ref)
	}
}

func (g *FnGen) writeRoot(st *State, a *Addr, rootT types.Type, v string) {
	switch {
	case a.Fam == "$struct":
		s := rootT.Underlying().(*types.Struct)
		name := g.sortOf(rootT)
		for i := 0; i < s.NumFields(); i++ {
			fam, sort, _ := g.fieldFam(rootT, i)
			h := g.heapGet(st, fam, sort)
			g.heapSet(st, fam, fmt.Sprintf("(store %s %s (%s-f%d %s))", h, a.Ref, name, i, v))
		}
	case strings.HasPrefix(a.Fam, "Elem_") && a.Idx == "":
		h := g.heapGet(st, a.Fam, g.famSort[a.Fam])
		g.heapSet(st, a.Fam, fmt.Sprintf("(store %s %s %s)", h, a.Ref, v))
	case strings.HasPrefix(a.Fam, "Elem_"):
		h := g.heapGet(st, a.Fam, g.famSort[a.Fam])
		g.heapSet(st, a.Fam, fmt.Sprintf("(store %s %s (store (select %s %s) %s %s))", h, a.Ref, h, a.Ref, a.Idx, v))
	default:
		h := g.heapGet(st, a.Fam, g.famSort[a.Fam])
		g.heapSet(st, a.Fam, fmt.Sprintf("(store %s %s %s)", h, a.Ref, v))
	}
}

// rootType: the Go type stored at the root location.
func (a *Addr) rootType() types.Type {
	if len(a.Path) == 0 {
		return a.T
	}
	return a.Path[0].st
}

func (g *FnGen) load(st *State, a *Addr) string {
	cur := g.readRoot(st, a, a.rootType())
	for _, p := range a.Path {
		if p.field >= 0 {
			cur = fmt.Sprintf("(%s-f%d %s)", g.sortOf(p.st), p.field, cur)
		} else {
			cur = fmt.Sprintf("(select %s %s)", cur, p.arrIdx)
		}
	}
	return cur
}

func (g *FnGen) store(st *State, a *Addr, v string) {
	if len(a.Path) == 0 {
		g.writeRoot(st, a, a.T, v)
		return
	}
	// functional update along the path
	root := g.readRoot(st, a, a.rootType())
	var upd func(cur string, i int) string
	upd = func(cur string, i int) string {
		if i == len(a.Path) {
			return v
		}
		p := a.Path[i]
		if p.field >= 0 {
			s := p.st.Underlying().(*types.Struct)
			name := g.sortOf(p.st)
			var parts []string
			for k := 0; k < s.NumFields(); k++ {
				sel := fmt.Sprintf("(%s-f%d %s)", name, k, cur)
				if k == p.field {
					parts = append(parts, upd(sel, i+1))
				} else {
					parts = append(parts, sel)
				}
			}
			return fmt.Sprintf("(mk-%s %s)", name, strings.Join(parts, " "))
		}
		return fmt.Sprintf("(store %s %s %s)", cur, p.arrIdx, upd(fmt.Sprintf("(select %s %s)", cur, p.arrIdx), i+1))
	}
	g.writeRoot(st, a, a.rootType(), upd(root, 0))
}

// ---------------------------------------------------------------- values

func (g *FnGen) zero(t types.Type) Val {
	s := g.sortOf(t)
	v := Val{S: s, GT: t}
	switch u := t.Underlying().(type) {
	case *types.Basic:
		if _, _, ok := intInfo(u); ok {
			return g.intConst(big.NewInt(0), t)
		}
		switch {
		case u.Info()&types.IsBoolean != 0:
			v.T = "false"
		case u.Info()&types.IsString != 0:
			v.T = g.strLit("")
		case u.Info()&types.IsFloat != 0:
			v.T = "f64zero"
		default:
			v.T = "0"
		}
	case *types.Slice:
		z := g.ilit64(0)
		v.T = fmt.Sprintf("(mk-slice 0 %s %s %s)", z, z, z)
	case *types.Pointer, *types.Map, *types.Chan, *types.Signature:
		v.T = "0"
	case *types.Interface:
		v.T = "nil_iface"
	case *types.Struct:
		if u.NumFields() == 0 {
			v.T = "mk-" + s
			break
		}
		var parts []string
		for i := 0; i < u.NumFields(); i++ {
			parts = append(parts, g.zero(u.Field(i).Type()).T)
		}
		v.T = fmt.Sprintf("(mk-%s %s)", s, strings.Join(parts, " "))
	case *types.Array:
		v.T = g.constArray(u.Elem())
	default:
		g.unsupported("zero value of %s", t)
	}
	return v
}

// constArray: an array whose every element is the zero value of el. (as const) is used only when the
// zero value is an SMT value (cvc5 rejects uninterpreted constants there); otherwise a declared
// array with a quantified axiom.
func (g *FnGen) constArray(el types.Type) string {
	s := fmt.Sprintf("(Array %s %s)", g.idx(), g.sortOf(el))
	z := g.zero(el).T
	isVal := true
	for _, bad := range []string{"nil_iface", "strlit!", "f64zero", "zeroarr!"} {
		if strings.Contains(z, bad) {
			isVal = false
		}
	}
	if isVal {
		return fmt.Sprintf("((as const %s) %s)", s, z)
	}
	n := "zeroarr!" + typeKey(el)
	if !g.declared[n] {
		g.declared[n] = true
		g.decls = append(g.decls, fmt.Sprintf("(declare-const %s %s)", n, s))
		g.assume(fmt.Sprintf("(forall ((za!i %s)) (! (= (select %s za!i) %s) :pattern ((select %s za!i))))", g.idx(), n, z, n))
	}
	return n
}

func (g *FnGen) strLit(s string) string {
	if n, ok := g.strLits[s]; ok {
		return n
	}
	n := fmt.Sprintf("strlit!%d", len(g.strLits))
	g.strLits[s] = n
	g.decls = append(g.decls, fmt.Sprintf("(declare-const %s Str)", n))
	g.assume(fmt.Sprintf("(= (slen %s) %s)", n, g.ilit64(int64(len(s)))))
	if len(s) <= 64 {
		for i := 0; i < len(s); i++ {
			g.assume(fmt.Sprintf("(= (sat %s %s) %s)", n, g.ilit64(int64(i)), g.ilit(big.NewInt(int64(s[i])), 8)))
		}
	}
	// distinct from earlier literals
	for o, on := range g.strLits {
		if o != s {
			g.assume(fmt.Sprintf("(distinct %s %s)", n, on))
		}
	}
	return n
}

func (g *FnGen) constVal(c *ssa.Const) Val {
	t := c.Type()
	if c.Value == nil {
		return g.zero(t)
	}
	switch c.Value.Kind() {
	case constant.Bool:
		return Val{T: fmt.Sprint(constant.BoolVal(c.Value)), S: "Bool", GT: t}
	case constant.Int:
		v, _ := new(big.Int).SetString(c.Value.ExactString(), 10)
		if _, _, ok := intInfo(t); ok {
			return g.intConst(v, t)
		}
		if b, ok := t.Underlying().(*types.Basic); ok && b.Info()&types.IsFloat != 0 {
			return g.floatConst(c.Value.ExactString())
		}
	case constant.String:
		return Val{T: g.strLit(constant.StringVal(c.Value)), S: "Str", GT: t}
	case constant.Float:
		return g.floatConst(c.Value.ExactString())
	}
	g.unsupported("constant %s", c)
	return Val{}
}

func (g *FnGen) floatConst(s string) Val {
	n := "f64c_" + sanitize(s)
	if !g.declared[n] {
		g.declared[n] = true
		g.decls = append(g.decls, fmt.Sprintf("(declare-const %s F64)", n))
	}
	return Val{T: n, S: "F64", GT: types.Typ[types.Float64]}
}

func (g *FnGen) val(v ssa.Value) Val {
	if x, ok := g.vals[v]; ok {
		return x
	}
	switch c := v.(type) {
	case *ssa.Const:
		return g.constVal(c)
	case *ssa.Global:
		// address of a global
		fam := "Glob_" + sanitize(c.Pkg.Pkg.Name()+"."+c.Name())
		el := c.Type().(*types.Pointer).Elem()
		g.famInit(fam, fmt.Sprintf("(Array Int %s)", g.sortOf(el)))
		return Val{T: "0", S: "Int", GT: c.Type(), Addr: &Addr{Fam: fam, Ref: "0", T: el}}
	case *ssa.Function:
		return g.funcVal(c)
	case *ssa.Builtin:
		g.unsupported("builtin %s as value", c.Name())
	}
	g.unsupported("value %s (%T) used before definition", v.Name(), v)
	return Val{}
}

func (g *FnGen) funcVal(f *ssa.Function) Val {
	n := "fn_" + sanitize(f.String())
	if !g.declared[n] {
		g.declared[n] = true
		g.decls = append(g.decls, fmt.Sprintf("(declare-const %s Int)", n))
		g.assume(fmt.Sprintf("(> %s 0)", n))
	}
	return Val{T: n, S: "Int", GT: f.Type()}
}

// ---------------------------------------------------------------- slices

func sref(s string) string { return "(s-ref " + s + ")" }
func soff(s string) string { return "(s-off " + s + ")" }
func slen(s string) string { return "(s-len " + s + ")" }
func scap(s string) string { return "(s-cap " + s + ")" }

func (g *FnGen) add(a, b string) string {
	// peephole: a + (J - a) == J (absolute-index quantifiers, see Env.quant)
	for _, op := range []string{"(bvsub ", "(- "} {
		if strings.HasPrefix(b, op) && strings.HasSuffix(b, " "+a+")") {
			j := b[len(op) : len(b)-len(a)-2]
			if !strings.ContainsAny(j, " ()") {
				return j
			}
		}
	}
	if g.mode == "bv" {
		return fmt.Sprintf("(bvadd %s %s)", a, b)
	}
	return fmt.Sprintf("(+ %s %s)", a, b)
}
func (g *FnGen) sub(a, b string) string {
	if g.mode == "bv" {
		return fmt.Sprintf("(bvsub %s %s)", a, b)
	}
	return fmt.Sprintf("(- %s %s)", a, b)
}
func (g *FnGen) sle(a, b string) string { return fmt.Sprintf("(%s %s %s)", g.cmp("<=", true), a, b) }
func (g *FnGen) slt(a, b string) string { return fmt.Sprintf("(%s %s %s)", g.cmp("<", true), a, b) }

func (g *FnGen) elemRead(st *State, elem types.Type, s, i string) string {
	fam, sort := g.elemFam(elem)
	h := g.heapGet(st, fam, sort)
	return fmt.Sprintf("(select (select %s %s) %s)", h, sref(s), g.add(soff(s), i))
}

// toIdx converts an integer Val to the index sort (Go int, 64 bit).
func (g *FnGen) toIdx(v Val) string {
	if v.GT == nil {
		if v.K != nil {
			return g.ilit(v.K, 64)
		}
		return v.T
	}
	return g.convertInt(v, v.GT, types.Typ[types.Int]).T
}

// ---------------------------------------------------------------- SMT prelude

func (g *FnGen) prelude() string {
	var b strings.Builder
	b.WriteString("(set-option :produce-models true)\n")
	b.WriteString("(set-logic ALL)\n")
	idx := g.idx()
	fmt.Fprintf(&b, "(declare-datatypes ((Slice 0)) (((mk-slice (s-ref Int) (s-off %s) (s-len %s) (s-cap %s)))))\n", idx, idx, idx)
	b.WriteString("(declare-sort Str 0)\n(declare-sort Iface 0)\n(declare-sort F64 0)\n")
	fmt.Fprintf(&b, "(declare-fun slen (Str) %s)\n(declare-fun sat (Str %s) %s)\n", idx, idx, g.isort(8))
	// the rune sequence of a string ([]rune(s), range over a string): uninterpreted (UTF-8 decoding is not modelled)
	fmt.Fprintf(&b, "(declare-fun rune-len (Str) %s)\n(declare-fun rune-at (Str %s) %s)\n", idx, idx, g.isort(32))
	// string slicing and concatenation as functions with content axioms
	le, lt := g.cmp("<=", true), g.cmp("<", true)
	z := g.ilit64(0)
	fmt.Fprintf(&b, "(declare-fun str-sub (Str %s %s) Str)\n(declare-fun str-cat (Str Str) Str)\n", idx, idx)
	// byte-wise string order: an uninterpreted strict total order (only irreflexivity / totality are used: a <= b is !(b < a))
	b.WriteString("(declare-fun str-lt (Str Str) Bool)\n")
	fmt.Fprintf(&b, "(assert (forall ((s Str) (lo %s) (hi %s)) (! (=> (and (%s %s lo) (%s lo hi) (%s hi (slen s))) (= (slen (str-sub s lo hi)) %s)) :pattern ((str-sub s lo hi)))))\n",
		idx, idx, le, z, le, le, g.sub("hi", "lo"))
	fmt.Fprintf(&b, "(assert (forall ((s Str) (lo %s) (hi %s) (k %s)) (! (=> (and (%s %s lo) (%s lo hi) (%s hi (slen s)) (%s %s k) (%s k %s)) (= (sat (str-sub s lo hi) k) (sat s %s))) :pattern ((sat (str-sub s lo hi) k)))))\n",
		idx, idx, idx, le, z, le, le, le, z, lt, g.sub("hi", "lo"), g.add("lo", "k"))
	fmt.Fprintf(&b, "(assert (forall ((a Str) (b Str)) (! (= (slen (str-cat a b)) %s) :pattern ((str-cat a b)))))\n", g.add("(slen a)", "(slen b)"))
	fmt.Fprintf(&b, "(assert (forall ((a Str) (b Str) (k %s)) (! (=> (and (%s %s k) (%s k %s)) (= (sat (str-cat a b) k) (ite (%s k (slen a)) (sat a k) (sat b %s)))) :pattern ((sat (str-cat a b) k)))))\n",
		idx, le, z, lt, g.add("(slen a)", "(slen b)"), lt, g.sub("k", "(slen a)"))
	b.WriteString("(declare-const nil_iface Iface)\n(declare-fun tagof (Iface) Int)\n(assert (= (tagof nil_iface) 0))\n")
	b.WriteString("(declare-const f64zero F64)\n")
	fmt.Fprintf(&b, "(assert (forall ((s Str)) (! (and (%s %s (slen s)) (%s (slen s) %s)) :pattern ((slen s)))))\n",
		g.cmp("<=", true), g.ilit64(0), g.cmp("<=", true), g.ilit64(1<<maxLenLog))
	return b.String()
}

// Script for one obligation.
// heavySymbols: assumptions mentioning one of these are dropped from the *sliced* script when the goal does
// not mention it. Dropping assumptions can only make an obligation harder to prove, never unsound.
var heavySymbols = []string{"memP_", "str-cat", "str-sub"}

// ufSymbols returns the uninterpreted function symbols (declare-fun with at least one argument) of the decls.
func ufSymbols(decls []string) map[string]bool {
	ufs := map[string]bool{}
	for _, d := range decls {
		for _, l := range strings.Split(d, "\n") {
			l = strings.TrimSpace(l)
			if !strings.HasPrefix(l, "(declare-fun ") {
				continue
			}
			f := strings.Fields(l[len("(declare-fun "):])
			if len(f) >= 2 && f[1] != "()" {
				ufs[f[0]] = true
			}
		}
	}
	return ufs
}

// symbolsIn collects the members of ufs that occur as tokens of the SMT text s.
func symbolsIn(s string, ufs map[string]bool, into map[string]bool) {
	i := 0
	for i < len(s) {
		c := s[i]
		if c == '(' || c == ')' || c == ' ' || c == '\n' || c == '\t' {
			i++
			continue
		}
		j := i
		for j < len(s) && s[j] != '(' && s[j] != ')' && s[j] != ' ' && s[j] != '\n' && s[j] != '\t' {
			j++
		}
		if ufs[s[i:j]] {
			into[s[i:j]] = true
		}
		i = j
	}
}

// irrelevantAxioms marks the top-level universally quantified assumptions (package axioms, used lemmas, the
// definitions of mem) that speak about uninterpreted functions no other part of the obligation mentions,
// directly or through a kept axiom. E-matching cannot instantiate them usefully and they only make the solver
// give up with "incomplete quantifiers"; dropping assumptions is always sound ("unsat" stays conclusive).
func irrelevantAxioms(assumes []string, rest []string, ufs map[string]bool) map[int]bool {
	live := map[string]bool{}
	for _, r := range rest {
		symbolsIn(r, ufs, live)
	}
	type cand struct {
		i    int
		syms map[string]bool
	}
	var cands []cand
	for i, a := range assumes {
		if strings.HasPrefix(a, "(forall ") {
			m := map[string]bool{}
			symbolsIn(a, ufs, m)
			if len(m) > 0 {
				cands = append(cands, cand{i, m})
				continue
			}
		}
		symbolsIn(a, ufs, live)
	}
	drop := map[int]bool{}
	for _, c := range cands {
		drop[c.i] = true
	}
	for changed := true; changed; {
		changed = false
		for _, c := range cands {
			if !drop[c.i] {
				continue
			}
			for s := range c.syms {
				if live[s] {
					delete(drop, c.i)
					for s2 := range c.syms {
						live[s2] = true
					}
					changed = true
					break
				}
			}
		}
	}
	return drop
}

// slicedScript returns the script without assumptions about heavy symbols the goal does not use and without
// axioms irrelevant to the obligation ("" if identical).
func (g *FnGen) slicedScript(o *Oblig) string {
	var drop []string
	for _, h := range heavySymbols {
		if !strings.Contains(o.Goal, h) {
			drop = append(drop, h)
		}
	}
	dropped := false
	keep := func(a string) bool {
		for _, h := range drop {
			if strings.Contains(a, h) {
				dropped = true
				return false
			}
		}
		return true
	}
	var kept []string
	for _, a := range g.assumesFor(o) {
		if keep(a) {
			kept = append(kept, a)
		}
	}
	guard := o.Guard
	if guard == "" {
		guard = "true"
	}
	rest := append(append([]string{}, o.Extra...), guard, o.Goal)
	irrelevant := irrelevantAxioms(kept, rest, ufSymbols(g.decls))
	if len(irrelevant) > 0 {
		dropped = true
	}
	if !dropped {
		return ""
	}
	var b strings.Builder
	b.WriteString(g.prelude())
	for _, d := range g.preludeX {
		b.WriteString(d)
		b.WriteByte('\n')
	}
	for _, d := range g.decls {
		b.WriteString(d)
		b.WriteByte('\n')
	}
	for i, a := range kept {
		if irrelevant[i] {
			continue
		}
		b.WriteString("(assert ")
		b.WriteString(a)
		b.WriteString(")\n")
	}
	for _, x := range o.Extra {
		b.WriteString("(assert ")
		b.WriteString(x)
		b.WriteString(")\n")
	}
	fmt.Fprintf(&b, "(assert (not (=> %s %s)))\n", guard, o.Goal)
	b.WriteString("(check-sat)\n")
	return b.String()
}

func (g *FnGen) script(o *Oblig) string {
	var b strings.Builder
	b.WriteString(g.prelude())
	for _, d := range g.preludeX {
		b.WriteString(d)
		b.WriteByte('\n')
	}
	for _, d := range g.decls {
		b.WriteString(d)
		b.WriteByte('\n')
	}
	for _, a := range g.assumesFor(o) {
		b.WriteString("(assert ")
		b.WriteString(a)
		b.WriteString(")\n")
	}
	for _, x := range o.Extra {
		b.WriteString("(assert ")
		b.WriteString(x)
		b.WriteString(")\n")
	}
	guard := o.Guard
	if guard == "" {
		guard = "true"
	}
	fmt.Fprintf(&b, "(assert (not (=> %s %s)))\n", guard, o.Goal)
	b.WriteString("(check-sat)\n")
	return b.String()
}

func sortedKeys(m map[string]bool) []string {
	var ks []string
	for k := range m {
		ks = append(ks, k)
	}
	sort.Strings(ks)
	return ks
}

type coverPoint struct {
	kind    string // entry | ret | loop
	name    string
	nAssume int
	guard   string
}

func (g *FnGen) addCover(kind, name string) {
	if g.dry {
		return
	}
	g.covers = append(g.covers, coverPoint{kind, name, len(g.assumes), g.curR})
}

// coverScript: the assumptions up to the point plus reachability must be satisfiable.
func (g *FnGen) coverScript(c coverPoint) string {
	var b strings.Builder
	b.WriteString(g.prelude())
	for _, d := range g.preludeX {
		b.WriteString(d)
		b.WriteByte('\n')
	}
	for _, d := range g.decls {
		b.WriteString(d)
		b.WriteByte('\n')
	}
	for _, a := range g.assumes[:c.nAssume] {
		b.WriteString("(assert ")
		b.WriteString(a)
		b.WriteString(")\n")
	}
	guard := c.guard
	if guard == "" {
		guard = "true"
	}
	fmt.Fprintf(&b, "(assert %s)\n(check-sat)\n", guard)
	return b.String()
}

// singleBitAnd: x & c in int mode for a constant c that is a single bit (2^k) or the type's all-ones value with one bit cleared.
func (g *FnGen) singleBitAnd(x, c Val, bits int, signed bool) (string, bool) {
	if c.K == nil {
		return "", false
	}
	k := c.K
	one := big.NewInt(1)
	if k.Sign() > 0 && new(big.Int).And(k, new(big.Int).Sub(k, one)).Sign() == 0 {
		return fmt.Sprintf("(* (mod (div %s %s) 2) %s)", x.T, k.String(), k.String()), true
	}
	// complement of a single bit: for unsigned types 2^bits-1-2^j, for signed types -1-2^j
	var cleared *big.Int
	if !signed && k.Sign() > 0 {
		all := new(big.Int).Sub(new(big.Int).Lsh(one, uint(bits)), one)
		cleared = new(big.Int).Sub(all, k)
	} else if signed && k.Sign() < 0 {
		cleared = new(big.Int).Sub(big.NewInt(-1), k)
	}
	if cleared != nil && cleared.Sign() > 0 && new(big.Int).And(cleared, new(big.Int).Sub(cleared, one)).Sign() == 0 {
		return fmt.Sprintf("(- %s (* (mod (div %s %s) 2) %s))", x.T, x.T, cleared.String(), cleared.String()), true
	}
	return "", false
}
