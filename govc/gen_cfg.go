package main

import (
	"fmt"
	"go/token"
	"go/types"
	"sort"
	"strings"

	"golang.org/x/tools/go/ssa"
)

func isBackEdge(p, b *ssa.BasicBlock) bool { return b.Dominates(p) }

func rpo(fn *ssa.Function) []*ssa.BasicBlock {
	seen := map[*ssa.BasicBlock]bool{}
	var post []*ssa.BasicBlock
	var dfs func(b *ssa.BasicBlock)
	dfs = func(b *ssa.BasicBlock) {
		seen[b] = true
		for _, s := range b.Succs {
			if isBackEdge(b, s) || seen[s] {
				continue
			}
			dfs(s)
		}
		post = append(post, b)
	}
	dfs(fn.Blocks[0])
	for i, j := 0, len(post)-1; i < j; i, j = i+1, j-1 {
		post[i], post[j] = post[j], post[i]
	}
	return post
}

func (g *FnGen) findLoops() {
	g.loopOf = map[*ssa.BasicBlock]*loopInfo{}
	for _, b := range g.fn.Blocks {
		for _, s := range b.Succs {
			if !isBackEdge(b, s) {
				continue
			}
			li := g.loopOf[s]
			if li == nil {
				li = &loopInfo{header: s, blocks: map[*ssa.BasicBlock]bool{s: true}, phiVars: map[string]*ssa.Phi{}}
				g.loopOf[s] = li
				g.loops = append(g.loops, li)
			}
			// natural loop of back edge b->s
			var stack []*ssa.BasicBlock
			if !li.blocks[b] {
				li.blocks[b] = true
				stack = append(stack, b)
			}
			for len(stack) > 0 {
				n := stack[len(stack)-1]
				stack = stack[:len(stack)-1]
				for _, p := range n.Preds {
					if !li.blocks[p] {
						li.blocks[p] = true
						stack = append(stack, p)
					}
				}
			}
		}
	}
	sort.Slice(g.loops, func(i, j int) bool { return g.loops[i].header.Index < g.loops[j].header.Index })
	for i, li := range g.loops {
		li.ord = i
		for _, ins := range li.header.Instrs {
			if phi, ok := ins.(*ssa.Phi); ok && phi.Comment != "" {
				li.phiVars[phi.Comment] = phi
			}
		}
	}
	// attach specs
	used := map[*LoopSpec]bool{}
	for _, li := range g.loops {
		for _, sp := range g.fc.Loops {
			if used[sp] || len(sp.Vars) == 0 {
				continue
			}
			all := true
			for _, v := range sp.Vars {
				if _, ok := li.phiVars[v]; !ok {
					all = false
				}
			}
			if all {
				li.spec = sp
				used[sp] = true
				break
			}
		}
	}
	for _, li := range g.loops {
		if li.spec != nil {
			continue
		}
		for _, sp := range g.fc.Loops {
			if !used[sp] && sp.Key == fmt.Sprint(li.ord) {
				li.spec = sp
				used[sp] = true
				break
			}
		}
	}
	for _, sp := range g.fc.Loops {
		if !used[sp] {
			// the loop the invariant was written for is gone (the body changed shape): the function is verified
			// without it, so every obligation that depended on the invariant is reported as undischarged
			g.note(fmt.Sprintf("loop spec %q(%s) matches no loop of the current body and is ignored", sp.Key, strings.Join(sp.Vars, ",")))
		}
	}
}

func (g *FnGen) edgeCond(p, b *ssa.BasicBlock) string {
	r := g.blockR[p]
	if iff, ok := p.Instrs[len(p.Instrs)-1].(*ssa.If); ok {
		c := g.val(iff.Cond).T
		if p.Succs[0] == b && p.Succs[1] == b {
			return r
		}
		if p.Succs[0] == b {
			return and2(r, c)
		}
		return and2(r, "(not "+c+")")
	}
	return r
}

func and2(a, b string) string {
	if a == "true" {
		return b
	}
	if b == "true" {
		return a
	}
	return "(and " + a + " " + b + ")"
}

func (g *FnGen) collectDebug() {
	g.debugVar = map[string][]ssa.Value{}
	for _, b := range g.fn.Blocks {
		for _, ins := range b.Instrs {
			if d, ok := ins.(*ssa.DebugRef); ok {
				if id, ok := d.Expr.(interface{ String() string }); ok {
					_ = id
				}
				obj := d.Object()
				if obj == nil {
					continue
				}
				if _, isVar := obj.(*types.Var); !isVar {
					continue
				}
				name := obj.Name()
				dup := false
				for _, v := range g.debugVar[name] {
					if v == d.X {
						dup = true
					}
				}
				if !dup {
					g.debugVar[name] = append(g.debugVar[name], d.X)
				}
				if d.IsAddr {
					g.debugAddr[d.X] = true
				}
			}
		}
	}
}

// lookupLocal resolves a source-level variable name at block `at`.
func (g *FnGen) lookupLocal(name string, at *ssa.BasicBlock, phiVals map[*ssa.Phi]Val) (Val, bool) {
	// innermost enclosing loop's header phi first
	var best *loopInfo
	for _, li := range g.loops {
		if li.blocks[at] {
			if _, ok := li.phiVars[name]; ok {
				if best == nil || len(li.blocks) < len(best.blocks) {
					best = li
				}
			}
		}
	}
	if best != nil {
		phi := best.phiVars[name]
		if phiVals != nil {
			if v, ok := phiVals[phi]; ok {
				return v, true
			}
		}
		if v, ok := g.vals[phi]; ok {
			return v, true
		}
	}
	cands := g.debugVar[name]
	var avail []ssa.Value
	for _, c := range cands {
		if _, ok := g.vals[c]; !ok {
			if _, isParam := c.(*ssa.Parameter); !isParam {
				if _, isConst := c.(*ssa.Const); !isConst {
					continue
				}
			}
		}
		avail = append(avail, c)
	}
	// named results / address-taken locals: Alloc with that comment
	for _, b := range g.fn.Blocks {
		for _, ins := range b.Instrs {
			if a, ok := ins.(*ssa.Alloc); ok && a.Comment == name {
				if v, ok := g.vals[a]; ok {
					t := g.load(g.cur, g.addrOf(v))
					el := a.Type().(*types.Pointer).Elem()
					return Val{T: t, S: g.sortOf(el), GT: el}, true
				}
			}
		}
	}
	if len(avail) == 0 {
		return Val{}, false
	}
	// choose the latest definition that dominates `at`
	var pick ssa.Value
	for _, c := range avail {
		ins, ok := c.(ssa.Instruction)
		if ok && !(ins.Block() == at || ins.Block().Dominates(at)) {
			continue
		}
		if pick == nil {
			pick = c
			continue
		}
		pi, pok := pick.(ssa.Instruction)
		if !pok {
			pick = c
			continue
		}
		if ok && (pi.Block().Dominates(ins.Block())) {
			if pi.Block() == ins.Block() {
				// later in the same block wins
				for _, x := range pi.Block().Instrs {
					if x == pi {
						pick = c
						break
					}
					if x == ins {
						break
					}
				}
			} else {
				pick = c
			}
		}
	}
	if pick == nil {
		return Val{}, false
	}
	v := g.val(pick)
	if g.debugAddr[pick] {
		t := g.load(g.cur, g.addrOf(v))
		el := pick.Type().(*types.Pointer).Elem()
		return Val{T: t, S: g.sortOf(el), GT: el}, true
	}
	return v, true
}

func (g *FnGen) baseEnv() *Env {
	e := &Env{g: g, vars: map[string]Val{}, cur: g.cur, old: g.init, pkg: g.fnTypesPkg(), pcs: []*PkgContracts{g.pc}}
	for k, v := range g.params {
		e.vars[k] = v
	}
	// captured variables are addresses: contracts name the captured value
	for _, fv := range g.fn.FreeVars {
		if pv, ok := g.vals[fv]; ok {
			if pt, ok := fv.Type().(*types.Pointer); ok {
				st := g.cur
				e.vars[fv.Name()] = Val{T: g.load(st, g.addrOf(pv)), S: g.sortOf(pt.Elem()), GT: pt.Elem()}
			}
		}
	}
	return e
}

func (g *FnGen) fnTypesPkg() *types.Package {
	f := g.fn
	for f != nil {
		if f.Pkg != nil {
			return f.Pkg.Pkg
		}
		f = f.Parent()
	}
	return nil
}

func (g *FnGen) entryEnv() *Env {
	save := g.cur
	g.cur = g.init
	e := g.baseEnv()
	g.cur = save
	e.cur = g.init
	return e
}

func (g *FnGen) localEnv(at *ssa.BasicBlock, phiVals map[*ssa.Phi]Val) *Env {
	e := g.baseEnv()
	e.lookup = func(name string) (Val, bool) { return g.lookupLocal(name, at, phiVals) }
	e.at = at
	return e
}

// rangeFor: the range-over-map state a contract expression refers to: the only one of the function, or the one whose
// loop header is the block the expression is evaluated at (loop invariants of functions with several range loops).
func (g *FnGen) rangeFor(at *ssa.BasicBlock) *rangeState {
	if len(g.ranges) == 1 {
		for _, rs := range g.ranges {
			return rs
		}
	}
	if at != nil {
		for _, ins := range at.Instrs {
			if nx, ok := ins.(*ssa.Next); ok {
				if r, ok := nx.Iter.(*ssa.Range); ok {
					if rs := g.ranges[r]; rs != nil {
						return rs
					}
				}
			}
		}
	}
	return nil
}

// ---------------------------------------------------------------- main driver for one function

func (g *FnGen) run() {
	fn := g.fn
	g.collectDebug()
	g.findLoops()
	g.init = &State{h: map[string]string{}, epoch: 0}
	g.famInit("$alloc", "Int")
	g.cur = g.init.clone()
	g.curR = "true"
	// ghost variables of all loaded contract files
	for _, pc := range g.prog.sortedContracts() {
		for _, gv := range pc.Ghosts {
			env := &Env{g: g, pkg: g.prog.typesPkg(pc.PkgPath)}
			if env.pkg == nil {
				continue // the declaring package is not loaded for this property: its ghosts cannot be mentioned here
			}
			t, okT := func() (t types.Type, ok bool) {
				defer func() {
					if r := recover(); r != nil {
						if _, isU := r.(UnsupportedErr); isU {
							ok = false
							return
						}
						panic(r)
					}
				}()
				return env.resolveType(gv.Type), true
			}()
			if !okT {
				continue
			}
			fam := "Ghost_" + sanitize(gv.Name)
			g.ghost[gv.Name] = fam
			gs := g.sortOf(t)
			if mt, isMap := t.Underlying().(*types.Map); isMap {
				// a ghost of map type is a total function K -> V (an SMT array value), read with name[k]
				gs = fmt.Sprintf("(Array %s %s)", g.sortOf(mt.Key()), g.sortOf(mt.Elem()))
			}
			g.ghostSort[gv.Name] = gs
			g.ghostType[gv.Name] = t
			g.famInit(fam, fmt.Sprintf("(Array Int %s)", gs))
		}
	}
	// parameters (free variables of closures are ghost parameters)
	a0 := g.heapGet(g.init, "$alloc", "Int")
	bind := func(name string, v ssa.Value) {
		s := g.sortOf(v.Type())
		n := "p_" + sanitize(name)
		g.decls = append(g.decls, fmt.Sprintf("(declare-const %s %s)", n, s))
		val := Val{T: n, S: s, GT: v.Type()}
		g.vals[v] = val
		g.params[name] = val
		g.paramOrder = append(g.paramOrder, name)
		g.assume(g.typeFacts(val, v.Type()))
		switch v.Type().Underlying().(type) {
		case *types.Pointer, *types.Map:
			g.assume(fmt.Sprintf("(< %s %s)", n, a0))
		case *types.Slice:
			g.assume(fmt.Sprintf("(< (s-ref %s) %s)", n, a0))
		}
	}
	for _, p := range fn.Params {
		bind(p.Name(), p)
	}
	for _, fv := range fn.FreeVars {
		// a free variable is the address of the captured variable
		bind(fv.Name(), fv)
		g.assume(fmt.Sprintf("(> %s 0)", g.vals[fv].T))
	}
	// global axioms of the package
	g.emitAxioms()
	// requires
	env := g.entryEnv()
	for _, c := range g.fc.Requires {
		g.assume(env.trBool(c.E))
		// a precondition is an obligation at every call site that is itself under contract (pre@call/...); for callers
		// outside the kernel it is an assumption about them, and is listed as such
		g.note("precondition assumed at entry (checked only at call sites under contract): " + c.Src)
	}
	for _, c := range g.fc.Axioms {
		g.assume(env.trBool(c.E))
		g.note("assumed (function-local axiom): " + c.Src)
	}
	// ghost updates at entry
	for _, gu := range g.fc.GhostUpds {
		if gu.AtEntry {
			g.applyGhostUpdate(gu, g.entryEnv())
		}
	}
	g.init = g.cur.clone()
	g.init.epoch = g.cur.epoch
	g.addCover("entry", "entry")
	// cover obligation: requires + type invariants satisfiable (must be SAT)
	order := rpo(fn)
	g.processBlocks(order, nil)
	g.finishTags()
}

func (g *FnGen) emitAxioms() {
	for _, pc := range g.prog.sortedContracts() {
		// axioms are scoped to the contract file of the function's own package; `axiom NAME for F1 F2: ...`
		// restricts an axiom to the listed functions (keeps unrelated VCs free of heavy quantified facts)
		if g.pc != nil && pc != g.pc {
			continue
		}
		for _, ax := range pc.Axioms {
			if ax.Mode != "" && ax.Mode != g.mode {
				continue
			}
			if len(ax.For) > 0 {
				hit := false
				for _, f := range ax.For {
					if g.fc != nil && f == g.fc.Name {
						hit = true
					}
				}
				if !hit {
					continue
				}
			}
			env := &Env{g: g, vars: map[string]Val{}, cur: g.cur, old: g.cur, pkg: g.prog.typesPkg(pc.PkgPath), pcs: []*PkgContracts{pc}}
			ok := func() (ok bool) {
				defer func() {
					if r := recover(); r != nil {
						if _, isU := r.(UnsupportedErr); isU {
							ok = false
							return
						}
						panic(r)
					}
				}()
				g.assume(env.trBool(ax.E))
				return true
			}()
			if ok {
				g.note("axiom " + pc.PkgPath + "." + ax.Name + ": " + ax.Src)
			}
		}
	}
	// lemmas marked `use` (proved as obligations of their own) are available to the function VCs of their package
	if g.fn != nil && g.pc != nil {
		for _, lm := range g.pc.Lemmas {
			if !lm.Use || (lm.Mode != "" && lm.Mode != g.mode) {
				continue
			}
			env := &Env{g: g, vars: map[string]Val{}, cur: g.cur, old: g.cur, pkg: g.prog.typesPkg(g.pc.PkgPath), pcs: []*PkgContracts{g.pc}}
			if t, ok := env.tryTr(lm.E); ok && t.S == "Bool" {
				g.assume(t.T)
				g.note("lemma " + lm.Name + " used (proved separately as obligation lemma:" + lm.Name + ")")
			}
		}
	}
}

func (g *FnGen) finishTags() {
	// facts for interface-to-interface assertions: which known concrete tags implement which interface
	for _, ip := range g.implPreds {
		it, _ := ip.iface.Underlying().(*types.Interface)
		for id := 1; id <= len(g.tagIDs); id++ {
			t := g.tagTypes[id]
			if t == nil || it == nil {
				continue
			}
			if types.Implements(t, it) {
				g.assumes = append([]string{fmt.Sprintf("(%s %d)", ip.pred, id)}, g.assumes...)
			} else {
				g.assumes = append([]string{fmt.Sprintf("(not (%s %d))", ip.pred, id)}, g.assumes...)
			}
			g.shiftTags(1)
			for _, o := range g.obls {
				o.nAssume++
			}
		}
	}
}

// processBlocks processes blocks in order; if only != nil, restricted to that set (dry run of a loop).
func (g *FnGen) processBlocks(order []*ssa.BasicBlock, only map[*ssa.BasicBlock]bool) {
	for _, b := range order {
		if only != nil && !only[b] {
			continue
		}
		if !g.enterBlock(b, only) {
			continue
		}
		g.curBlock = b
		for _, ins := range b.Instrs {
			g.instr(ins)
		}
		g.exit[b] = g.cur
	}
}

func (g *FnGen) enterBlock(b *ssa.BasicBlock, only map[*ssa.BasicBlock]bool) bool {
	if b == g.fn.Blocks[0] {
		g.blockR[b] = "true"
		g.curR = "true"
		return true
	}
	if only != nil && g.loopOf[b] != nil && g.dryHeader == b {
		// dry run starts at this header with the state prepared by the caller
		return true
	}
	type edge struct {
		p    *ssa.BasicBlock
		cond string
		idx  int
	}
	var edges []edge
	for i, p := range b.Preds {
		if isBackEdge(p, b) {
			continue
		}
		if _, ok := g.blockR[p]; !ok {
			continue // unreachable predecessor
		}
		if only != nil && !only[p] {
			continue
		}
		edges = append(edges, edge{p, g.edgeCond(p, b), i})
	}
	if len(edges) == 0 {
		return false
	}
	var conds []string
	for _, e := range edges {
		conds = append(conds, e.cond)
	}
	rterm := conds[0]
	if len(conds) > 1 {
		rterm = "(or " + strings.Join(conds, " ") + ")"
	}
	r := g.fresh(fmt.Sprintf("R%d", b.Index), "Bool")
	g.assume(fmt.Sprintf("(= %s %s)", r, rterm))
	g.blockR[b] = r
	g.curR = r
	// merge states
	if len(edges) == 1 {
		g.cur = g.exit[edges[0].p].clone()
	} else {
		sameEpoch := true
		for _, e := range edges[1:] {
			if g.exit[e.p].epoch != g.exit[edges[0].p].epoch {
				sameEpoch = false
			}
		}
		m := &State{h: map[string]string{}}
		if sameEpoch {
			m.epoch = g.exit[edges[0].p].epoch
		} else {
			m.epoch = g.newEpoch()
			for _, e := range edges {
				g.epochParents[m.epoch] = append(g.epochParents[m.epoch], epochParent{e.cond, g.exit[e.p].epoch})
			}
		}
		fams := map[string]bool{}
		for _, e := range edges {
			for f := range g.exit[e.p].h {
				fams[f] = true
			}
		}
		for _, f := range sortedKeys(fams) {
			first := g.heapGet(g.exit[edges[0].p], f, g.famSort[f])
			same := true
			for _, e := range edges[1:] {
				if g.heapGet(g.exit[e.p], f, g.famSort[f]) != first {
					same = false
				}
			}
			if same {
				m.h[f] = first
				continue
			}
			n := g.heapNew(f)
			for _, e := range edges {
				g.assume(fmt.Sprintf("(=> %s (= %s %s))", e.cond, n, g.heapGet(g.exit[e.p], f, g.famSort[f])))
			}
			m.h[f] = n
		}
		g.cur = m
	}
	// phis
	li := g.loopOf[b]
	entryPhi := map[*ssa.Phi]Val{}
	for _, ins := range b.Instrs {
		phi, ok := ins.(*ssa.Phi)
		if !ok {
			break
		}
		var term string
		for k := len(edges) - 1; k >= 0; k-- {
			e := edges[k]
			ov := g.val(phi.Edges[e.idx])
			if term == "" {
				term = ov.T
			} else {
				term = fmt.Sprintf("(ite %s %s %s)", e.cond, ov.T, term)
			}
		}
		s := g.sortOf(phi.Type())
		n := g.fresh(phi.Name(), s)
		g.assume(fmt.Sprintf("(= %s %s)", n, term))
		v := Val{T: n, S: s, GT: phi.Type()}
		// keep tuple/addr info if all operands agree (rare)
		entryPhi[phi] = v
		if li == nil {
			g.vals[phi] = v
		}
	}
	if li != nil {
		g.loopHeader(li, entryPhi)
	}
	return true
}

func (g *FnGen) phi(i *ssa.Phi) {
	// handled in enterBlock
	if _, ok := g.vals[i]; !ok {
		g.unsupported("phi %s not bound", i.Name())
	}
}

func (g *FnGen) terminator(ins ssa.Instruction) {
	b := ins.Block()
	for _, s := range b.Succs {
		if !isBackEdge(b, s) {
			continue
		}
		li := g.loopOf[s]
		if li == nil {
			g.unsupported("back edge to non-header")
		}
		if g.dry {
			continue
		}
		// inv/preserved on this back edge
		saveR := g.curR
		g.curR = g.edgeCond(b, s)
		phiVals := map[*ssa.Phi]Val{}
		predIdx := -1
		for k, p := range s.Preds {
			if p == b {
				predIdx = k
			}
		}
		for _, x := range s.Instrs {
			if phi, ok := x.(*ssa.Phi); ok {
				phiVals[phi] = g.val(phi.Edges[predIdx])
			}
		}
		g.checkInvariants(li, phiVals, "preserved", b)
		g.curR = saveR
	}
}

func (g *FnGen) invariantsOf(li *loopInfo) []Clause {
	var out []Clause
	if li.spec != nil {
		out = append(out, li.spec.Invariants...)
	}
	return out
}

// implicitRangeInv: for compiler-generated range loops, -1 <= rangeindex < len.
func (g *FnGen) implicitRangeInv(li *loopInfo, phiVals map[*ssa.Phi]Val) []string {
	var out []string
	for _, ins := range li.header.Instrs {
		phi, ok := ins.(*ssa.Phi)
		if !ok {
			break
		}
		if phi.Comment != "rangeindex" {
			continue
		}
		// find t = phi + 1 ; c = t < n
		for _, x := range li.header.Instrs {
			if cmp, ok := x.(*ssa.BinOp); ok && cmp.Op == token.LSS {
				if add, ok := cmp.X.(*ssa.BinOp); ok && add.Op == token.ADD && add.X == phi {
					if nv, ok := g.vals[cmp.Y]; ok {
						pv := phiVals[phi]
						out = append(out, fmt.Sprintf("(and %s %s)", g.sle(g.ilit64(-1), pv.T), g.slt(pv.T, g.max0(nv.T))))
					}
				}
			}
		}
	}
	return out
}

func (g *FnGen) max0(t string) string {
	return fmt.Sprintf("(ite %s %s %s)", g.slt(t, g.ilit64(0)), g.ilit64(0), t)
}

func (g *FnGen) checkInvariants(li *loopInfo, phiVals map[*ssa.Phi]Val, what string, at *ssa.BasicBlock) {
	env := g.localEnv(li.header, phiVals)
	for k, c := range g.invariantsOf(li) {
		name := fmt.Sprintf("loop%d/inv#%d/%s", li.ord, k, what)
		if c.Label != "" {
			name = fmt.Sprintf("loop%d/inv:%s/%s", li.ord, c.Label, what)
		}
		if what == "preserved" {
			n := g.kindCnt[name]
			g.kindCnt[name] = n + 1
			if n > 0 {
				name = fmt.Sprintf("%s@edge%d", name, n)
			}
		}
		g.setUses(c)
		g.curTag = c.Label
		for _, part := range env.topParts(c.E) {
			g.oblige("inv/"+what, name+part.Suffix, part.T, c.Src, li.header.Instrs[0].Pos())
		}
		g.curTag = ""
		g.curUses = nil
	}
	for k, t := range g.implicitRangeInv(li, phiVals) {
		name := fmt.Sprintf("loop%d/rangeinv#%d/%s", li.ord, k, what)
		if what == "preserved" {
			n := g.kindCnt[name]
			g.kindCnt[name] = n + 1
			if n > 0 {
				name = fmt.Sprintf("%s@edge%d", name, n)
			}
		}
		g.oblige("inv/"+what, name, t, "implicit: -1 <= rangeindex < len", token.NoPos)
	}
}

func (g *FnGen) loopHeader(li *loopInfo, entryPhi map[*ssa.Phi]Val) {
	if g.dry && g.dryHeader == li.header {
		return
	}
	// 1. invariant holds on entry
	if !g.dry {
		g.checkInvariants(li, entryPhi, "init", li.header)
	}
	// 2. which heap families does the loop modify? dry run on a clone.
	mod, all := g.dryRun(li, entryPhi)
	li.mod = map[string]bool{}
	for _, f := range mod {
		li.mod[f] = true
	}
	li.modAll = all
	// 3. havoc
	pre := map[string]string{}
	for _, f := range mod {
		if !all && f != "$alloc" {
			pre[f] = g.heapGet(g.cur, f, g.famSort[f])
		}
	}
	if all {
		e := g.newEpoch()
		old := g.heapGet(g.cur, "$alloc", "Int")
		g.epochAllocLo[e] = append(g.epochAllocLo[e], old)
		g.cur = &State{h: map[string]string{}, epoch: e}
	} else {
		a0 := g.heapGet(g.init, "$alloc", "Int")
		li.allocEntry = g.heapGet(g.cur, "$alloc", "Int")
		if li.spec != nil && li.spec.LocalOnly {
			// the loop writes (besides the named objects) only what it allocates itself: every older object is preserved
			a0 = li.allocEntry
		}
		for _, f := range mod {
			old := g.heapGet(g.cur, f, g.famSort[f])
			n := g.heapNew(f)
			g.cur.h[f] = n
			if f == "$alloc" {
				g.assume(fmt.Sprintf("(>= %s %s)", n, old))
				continue
			}
			if strings.HasPrefix(f, "Visited_") || strings.HasPrefix(f, "VisitedN_") || strings.HasPrefix(f, "Ghost_") {
				continue
			}
			// loop frame: objects that existed at function entry and are not named in the loop's
			// assigns clause keep their contents (every write in the loop carries a frame/loop obligation)
			fr := g.loopFrameCond(li, f, "lf!r")
			g.assume(fmt.Sprintf("(forall ((lf!r Int)) (! (=> (and (< lf!r %s) (not %s)) (= (select %s lf!r) (select %s lf!r))) :pattern ((select %s lf!r))))",
				a0, fr, n, old, n))
		}
	}
	if !all {
		g.privateCopiesKept(li, pre)
	}
	phiVals := map[*ssa.Phi]Val{}
	for _, ins := range li.header.Instrs {
		phi, ok := ins.(*ssa.Phi)
		if !ok {
			break
		}
		v := g.unknown(phi)
		phiVals[phi] = v
	}
	// 4. assume invariants
	env := g.localEnv(li.header, phiVals)
	for _, c := range g.invariantsOf(li) {
		n0 := len(g.assumes)
		g.assumeHere(env.trBool(c.E))
		if c.Label != "" && len(g.assumes) > n0 {
			// the invariant itself is the last assumption added (allocation facts about the references it reads come first)
			g.tagAssume(len(g.assumes)-1, c.Label)
		}
	}
	for _, t := range g.implicitRangeInv(li, phiVals) {
		g.assumeHere(t)
	}
}

// loopFrameCond: condition under which ref (of family fam) is named by the loop's assigns clause.
func (g *FnGen) loopFrameCond(li *loopInfo, fam, ref string) string {
	alts := []string{"false"}
	if li.spec == nil {
		return "false"
	}
	env := g.localEnv(li.header, nil)
	for _, c := range li.spec.Assigns {
		switch l := c.E.(type) {
		case *ESel:
			x := env.tr(l.X)
			if p, ok := typeUnder(x.GT).(*types.Pointer); ok {
				if st, ok := p.Elem().Underlying().(*types.Struct); ok {
					for i := 0; i < st.NumFields(); i++ {
						if st.Field(i).Name() == l.Name {
							if f, _, _ := g.fieldFam(p.Elem(), i); f == fam {
								alts = append(alts, fmt.Sprintf("(= %s %s)", ref, x.T))
							}
						}
					}
				}
			}
			// p.f of slice type also names the elements of that slice
			if v, ok := env.tryTr(c.E); ok {
				if u, isSl := typeUnder(v.GT).(*types.Slice); isSl {
					if f, _ := g.elemFam(u.Elem()); f == fam {
						alts = append(alts, fmt.Sprintf("(= %s (s-ref %s))", ref, v.T))
					}
				}
				// p.f of map type also names the contents of that map
				if u, isMap := typeUnder(v.GT).(*types.Map); isMap {
					pf, _, vf, _ := g.mapFams2(u)
					lf, _ := g.mapLenFam(u)
					if fam == pf || fam == vf || fam == lf {
						alts = append(alts, fmt.Sprintf("(= %s %s)", ref, v.T))
					}
				}
			}
		case *ECall:
			if id, _ := l.Fn.(*EIdent); id != nil && len(l.Args) == 1 && (id.Name == "fieldsof" || id.Name == "elemsoftype") {
				for _, f := range g.typeFrameFams(env, id.Name, l.Args[0]) {
					if f == fam {
						alts = append(alts, "true")
					}
				}
				continue
			}
			g.unsupported("loop assigns: cannot interpret %s", exprString(c.E))
		default:
			v := env.tr(c.E)
			switch u := typeUnder(v.GT).(type) {
			case *types.Slice:
				if f, _ := g.elemFam(u.Elem()); f == fam {
					alts = append(alts, fmt.Sprintf("(= %s (s-ref %s))", ref, v.T))
				}
			case *types.Map:
				pf, _, vf, _ := g.mapFams2(u)
				lf, _ := g.mapLenFam(u)
				if fam == pf || fam == vf || fam == lf {
					alts = append(alts, fmt.Sprintf("(= %s %s)", ref, v.T))
				}
			default:
				if id, ok := c.E.(*EIdent); ok && env.pkg != nil {
					if o := env.pkg.Scope().Lookup(id.Name); o != nil {
						if vv, ok := o.(*types.Var); ok && "Glob_"+sanitize(vv.Pkg().Name()+"."+vv.Name()) == fam {
							alts = append(alts, "true")
						}
					}
				}
			}
		}
	}
	if len(alts) == 1 {
		return "false"
	}
	return "(or " + strings.Join(alts, " ") + ")"
}

// loopFrameCheck: a write to (fam, ref) inside loops must hit an object allocated by this function
// or one named in the loops' assigns clauses.
func (g *FnGen) loopFrameCheck(fam, ref string, pos token.Pos) {
	if g.dry || g.curBlock == nil || strings.HasPrefix(ref, "ref!") {
		return
	}
	if strings.HasPrefix(fam, "Visited_") || strings.HasPrefix(fam, "VisitedN_") || strings.HasPrefix(fam, "Ghost_") || fam == "$alloc" {
		return
	}
	a00 := g.heapGet(g.init, "$alloc", "Int")
	for _, li := range g.loops {
		if !li.blocks[g.curBlock] {
			continue
		}
		a0 := a00
		if li.spec != nil && li.spec.LocalOnly && li.allocEntry != "" {
			a0 = li.allocEntry
		}
		// ref 0 is the nil slice / nil map: nothing is stored there at run time (append(nil) of no elements stays nil; every
		// other write through nil panics or reallocates), the model's row 0 is never read
		goal := fmt.Sprintf("(or (= %s 0) (>= %s %s) %s)", ref, ref, a0, g.loopFrameCond(li, fam, ref))
		g.oblige("frame", g.ordName(fmt.Sprintf("frame/loop%d", li.ord)), goal, "write inside the loop touches only objects allocated by this function or named in the loop's assigns clause", pos)
	}
}

// dryRun processes the loop body once on a clone to find the heap families it changes.
func (g *FnGen) dryRun(li *loopInfo, entryPhi map[*ssa.Phi]Val) (mod []string, all bool) {
	c := g.clone()
	c.dry = true
	c.dryHeader = li.header
	start := c.cur.clone()
	for phi, v := range entryPhi {
		c.vals[phi] = v
	}
	order := rpo(g.fn)
	func() {
		defer func() {
			if r := recover(); r != nil {
				if _, ok := r.(UnsupportedErr); ok {
					all = true // be conservative; the real pass will report the error
					return
				}
				panic(r)
			}
		}()
		c.processBlocks(order, li.blocks)
	}()
	if all {
		return nil, true
	}
	seen := map[string]bool{}
	for b := range li.blocks {
		st := c.exit[b]
		if st == nil {
			continue
		}
		if st.epoch != start.epoch {
			return nil, true
		}
		for f, t := range st.h {
			if t != c.heapGet(start, f, c.famSort[f]) {
				seen[f] = true
			}
		}
	}
	// families first touched in the dry run must be registered in the real generator too
	for f := range seen {
		g.famInit(f, c.famSort[f])
	}
	return sortedKeys(seen), false
}

func (g *FnGen) clone() *FnGen {
	c := *g
	c.preludeX = append([]string{}, g.preludeX...)
	c.decls = append([]string{}, g.decls...)
	c.assumes = append([]string{}, g.assumes...)
	c.obls = append([]*Oblig{}, g.obls...)
	c.declared = copyMapB(g.declared)
	c.famSort = copyMapS(g.famSort)
	c.famVer = map[string]int{}
	for k, v := range g.famVer {
		c.famVer[k] = v
	}
	c.vals = map[ssa.Value]Val{}
	for k, v := range g.vals {
		c.vals[k] = v
	}
	c.blockR = map[*ssa.BasicBlock]string{}
	for k, v := range g.blockR {
		c.blockR[k] = v
	}
	c.exit = map[*ssa.BasicBlock]*State{}
	for k, v := range g.exit {
		c.exit[k] = v
	}
	c.cur = g.cur.clone()
	c.kindCnt = map[string]int{}
	for k, v := range g.kindCnt {
		c.kindCnt[k] = v
	}
	c.notes = copyMapB(g.notes)
	c.structDT = copyMapS(g.structDT)
	c.tagIDs = map[string]int{}
	for k, v := range g.tagIDs {
		c.tagIDs[k] = v
	}
	c.tagTypes = map[int]types.Type{}
	for k, v := range g.tagTypes {
		c.tagTypes[k] = v
	}
	c.strLits = copyMapS(g.strLits)
	c.callCnt = map[string]int{}
	for k, v := range g.callCnt {
		c.callCnt[k] = v
	}
	c.epochParents = map[int][]epochParent{}
	for k, v := range g.epochParents {
		c.epochParents[k] = v
	}
	c.epochAllocLo = map[int][]string{}
	for k, v := range g.epochAllocLo {
		c.epochAllocLo[k] = v
	}
	c.defers = append([]*deferRec{}, g.defers...)
	c.implPreds = append([]implPred{}, g.implPreds...)
	return &c
}

func copyMapB(m map[string]bool) map[string]bool {
	n := make(map[string]bool, len(m))
	for k, v := range m {
		n[k] = v
	}
	return n
}
func copyMapS(m map[string]string) map[string]string {
	n := make(map[string]string, len(m))
	for k, v := range m {
		n[k] = v
	}
	return n
}

// ---------------------------------------------------------------- return

func (g *FnGen) ret(i *ssa.Return) {
	env := g.baseEnv()
	env.lookup = func(name string) (Val, bool) { return g.lookupLocal(name, i.Block(), nil) }
	res := g.fn.Signature.Results()
	for k, r := range i.Results {
		v := g.val(r)
		v.GT = res.At(k).Type()
		env.vars[fmt.Sprintf("ret%d", k)] = v
		if n := res.At(k).Name(); n != "" && n != "_" {
			env.vars[n] = v
		}
	}
	idx := g.retIdx
	g.retIdx++
	g.addCover("ret", fmt.Sprintf("ret%d", idx))
	// hints: intermediate assertions, each proved here (with the earlier ones assumed) and then assumed for the postconditions
	for k, c := range g.fc.Hints {
		name := fmt.Sprintf("hint#%d@ret%d", k, idx)
		if c.Label != "" {
			name = fmt.Sprintf("hint:%s@ret%d", c.Label, idx)
		}
		for _, part := range env.topParts(c.E) {
			g.oblige("hint", name+part.Suffix, part.T, c.Src, i.Pos())
			g.assumeHere(part.T)
		}
	}
	for k, c := range g.fc.Ensures {
		name := fmt.Sprintf("post#%d@ret%d", k, idx)
		if c.Label != "" {
			name = fmt.Sprintf("post:%s@ret%d", c.Label, idx)
		}
		g.setUses(c)
		if c.Label != "" {
			// earlier postconditions are hypotheses of later ones unless the later one selects its hypotheses (`uses`;
			// an earlier postcondition is named post:<label> there)
			g.curTag = "post:" + c.Label
		}
		for _, part := range env.topParts(c.E) {
			g.oblige("post", name+part.Suffix, part.T, c.Src, i.Pos())
		}
		g.curTag = ""
		g.curUses = nil
	}
}

// ---------------------------------------------------------------- range over maps / strings

type rangeState struct {
	m       Val
	mt      *types.Map
	visited string // family name of ghost visited set
	cnt     string // family name of the ghost iteration counter
	len0    string // len(m) when the range started
}

func (g *FnGen) rangeInstr(i *ssa.Range) {
	x := g.val(i.X)
	switch u := i.X.Type().Underlying().(type) {
	case *types.Map:
		// ghost visited set: Array K Bool stored in a per-range family
		fam := fmt.Sprintf("Visited_%s", sanitize(i.Name()))
		sort := fmt.Sprintf("(Array Int (Array %s Bool))", g.sortOf(u.Key()))
		g.famInit(fam, sort)
		h := g.heapGet(g.cur, fam, sort)
		g.heapSet(g.cur, fam, fmt.Sprintf("(store %s 0 ((as const (Array %s Bool)) false))", h, g.sortOf(u.Key())))
		cfam := fmt.Sprintf("VisitedN_%s", sanitize(i.Name()))
		g.famInit(cfam, "(Array Int Int)")
		g.heapSet(g.cur, cfam, fmt.Sprintf("(store %s 0 0)", g.heapGet(g.cur, cfam, "(Array Int Int)")))
		lf, ls := g.mapLenFam(u)
		len0 := g.fresh("rangelen", "Int")
		g.assume(fmt.Sprintf("(= %s (ite (= %s 0) 0 (select %s %s)))", len0, x.T, g.heapGet(g.cur, lf, ls), x.T))
		g.ranges[i] = &rangeState{m: x, mt: u, visited: fam, cnt: cfam, len0: len0}
		g.vals[i] = Val{T: "0", S: "Int", GT: i.Type()}
	default:
		g.unsupported("range over %s (only maps; strings unsupported)", i.X.Type())
	}
}

func (g *FnGen) nextInstr(i *ssa.Next) {
	rs := g.ranges[i.Iter.(*ssa.Range)]
	if rs == nil || i.IsString {
		g.unsupported("next on unsupported iterator")
	}
	mt := rs.mt
	pf, ps, vf, vs := g.mapFams2(mt)
	ks := g.sortOf(mt.Key())
	vfam := rs.visited
	vis := fmt.Sprintf("(select %s 0)", g.heapGet(g.cur, vfam, g.famSort[vfam]))
	pres := fmt.Sprintf("(select %s %s)", g.heapGet(g.cur, pf, ps), rs.m.T)
	ok := g.fresh(i.Name()+".ok", "Bool")
	k := g.fresh(i.Name()+".k", ks)
	// ok <=> some present key is unvisited; when ok, k is such a key
	g.assume(fmt.Sprintf("(= %s (and (not (= %s 0)) (exists ((rk %s)) (and (select %s rk) (not (select %s rk))))))", ok, rs.m.T, ks, pres, vis))
	g.assumeHere(fmt.Sprintf("(=> %s (and (select %s %s) (not (select %s %s))))", ok, pres, k, vis, k))
	kv := Val{T: k, S: ks, GT: mt.Key()}
	g.assumeHere(g.typeFacts(kv, mt.Key()))
	vterm := fmt.Sprintf("(select (select %s %s) %s)", g.heapGet(g.cur, vf, vs), rs.m.T, k)
	vv := g.fresh(i.Name()+".v", g.sortOf(mt.Elem()))
	g.assume(fmt.Sprintf("(= %s %s)", vv, vterm))
	val := Val{T: vv, S: g.sortOf(mt.Elem()), GT: mt.Elem()}
	g.assumeHere(g.typeFacts(val, mt.Elem()))
	g.refFacts(val, mt.Elem())
	// iteration counter; a range over a map the loop does not modify produces every key once: on exit the
	// number of iterations is len(m)
	if g.mode == "int" {
		ch := g.heapGet(g.cur, rs.cnt, "(Array Int Int)")
		unmodified, isHeader := false, false
		for _, li := range g.loops {
			if li.header == i.Block() {
				isHeader = true
				if li.mod != nil && !li.modAll && !li.mod[pf] {
					unmodified = true
				}
			}
		}
		if !isHeader {
			// `for k := range m { ...; break }`: no back edge, this is the first and only Next of the range
			unmodified = true
		}
		if unmodified {
			g.assumeHere(fmt.Sprintf("(=> (not %s) (= (select %s 0) %s))", ok, ch, rs.len0))
			g.assumeHere(fmt.Sprintf("(=> %s (< (select %s 0) %s))", ok, ch, rs.len0))
		}
		g.heapSet(g.cur, rs.cnt, fmt.Sprintf("(ite %s (store %s 0 (+ (select %s 0) 1)) %s)", ok, ch, ch, ch))
	}
	// mark visited (only meaningful when ok)
	h := g.heapGet(g.cur, vfam, g.famSort[vfam])
	g.heapSet(g.cur, vfam, fmt.Sprintf("(ite %s (store %s 0 (store (select %s 0) %s true)) %s)", ok, h, h, k, h))
	g.vals[i] = Val{S: "Tuple", GT: i.Type(), Tuple: []Val{{T: ok, S: "Bool", GT: types.Typ[types.Bool]}, kv, val}}
}

// ---------------------------------------------------------------- defer

func (g *FnGen) deferInstr(i *ssa.Defer) {
	for _, li := range g.loops {
		if li.blocks[i.Block()] {
			g.unsupported("defer inside a loop")
		}
	}
	var args []Val
	if !i.Call.IsInvoke() {
		if _, isB := i.Call.Value.(*ssa.Builtin); !isB {
			if i.Call.StaticCallee() == nil {
				g.val(i.Call.Value)
			}
		}
	}
	for _, a := range i.Call.Args {
		args = append(args, g.val(a))
	}
	g.defers = append(g.defers, &deferRec{flag: g.blockR[i.Block()], call: i, args: args, blk: i.Block()})
}

func (g *FnGen) runDefers(i *ssa.RunDefers) {
	for k := len(g.defers) - 1; k >= 0; k-- {
		d := g.defers[k]
		if d.blk == i.Block() || d.blk.Dominates(i.Block()) {
			g.call(d.call, &d.call.Call)
			continue
		}
		if _, reached := g.blockR[d.blk]; !reached {
			continue
		}
		// conditional defer: apply under the flag, then merge
		before := g.cur.clone()
		saveR := g.curR
		g.curR = and2(saveR, d.flag)
		g.call(d.call, &d.call.Call)
		after := g.cur
		g.curR = saveR
		m := before.clone()
		if after.epoch != before.epoch {
			m.epoch = g.newEpoch()
			m.h = map[string]string{}
			g.epochParents[m.epoch] = []epochParent{{d.flag, after.epoch}, {"(not " + d.flag + ")", before.epoch}}
		}
		fams := map[string]bool{}
		for f := range after.h {
			fams[f] = true
		}
		for f := range before.h {
			fams[f] = true
		}
		for _, f := range sortedKeys(fams) {
			a := g.heapGet(after, f, g.famSort[f])
			b := g.heapGet(before, f, g.famSort[f])
			if a == b {
				m.h[f] = a
				continue
			}
			n := g.heapNew(f)
			g.assume(fmt.Sprintf("(= %s (ite %s %s %s))", n, d.flag, a, b))
			m.h[f] = n
		}
		g.cur = m
	}
}

// privateCopiesKept: a []byte(s) / []rune(s) conversion made before the loop whose result is only ever
// indexed for reading and measured (the `for _, c := range []byte(s)` idiom) is a private copy: no store
// can reach it, so its elements are the same at the loop head as before the loop.
func (g *FnGen) privateCopiesKept(li *loopInfo, pre map[string]string) {
	for _, b := range g.fn.Blocks {
		if b == li.header || !b.Dominates(li.header) {
			continue
		}
		for _, ins := range b.Instrs {
			cv, ok := ins.(*ssa.Convert)
			if !ok {
				continue
			}
			sl, isSl := typeUnder(cv.Type()).(*types.Slice)
			if !isSl || !readOnlyUses(cv) {
				continue
			}
			f, _ := g.elemFam(sl.Elem())
			old, ok := pre[f]
			if !ok {
				continue
			}
			v, ok := g.vals[cv]
			if !ok {
				continue
			}
			g.assume(fmt.Sprintf("(= (select %s (s-ref %s)) (select %s (s-ref %s)))", g.cur.h[f], v.T, old, v.T))
		}
	}
}

func readOnlyUses(v ssa.Value) bool {
	refs := v.Referrers()
	if refs == nil {
		return false
	}
	for _, r := range *refs {
		switch u := r.(type) {
		case *ssa.DebugRef:
		case *ssa.IndexAddr:
			ur := u.Referrers()
			if ur == nil {
				return false
			}
			for _, x := range *ur {
				if l, ok := x.(*ssa.UnOp); !ok || l.Op != token.MUL {
					if _, dbg := x.(*ssa.DebugRef); !dbg {
						return false
					}
				}
			}
		case *ssa.Call:
			bi, ok := u.Call.Value.(*ssa.Builtin)
			if !ok || (bi.Name() != "len" && bi.Name() != "cap") {
				return false
			}
		default:
			return false
		}
	}
	return true
}
