#!/bin/sh
# tools/seedall.sh [name-filter]: regression over every independently written seeded change under /verif/seeded/<name>/:
# patch applied to a scratch worktree of /repo (outside /repo and /verif, removed afterwards), the property's quick check must
# exit 1 with a VIOLATION line; the unpatched worktree was checked by tools/runall.sh. Writes seeded/RESULTS.json.
set -u
V=/verif
export GOFLAGS=-mod=mod GOPROXY=off GOSUMDB=off GOTOOLCHAIN=local
WT=$(mktemp -d /tmp/govc-seedall.XXXXXX)
SV=$(mktemp -d /tmp/govc-seedverif.XXXXXX)
trap 'git -C /repo worktree remove --force "$WT" >/dev/null 2>&1; rm -rf "$WT" "$SV"' EXIT
git -C /repo worktree add --detach -f "$WT" HEAD >/dev/null 2>&1 || { echo "cannot create worktree"; exit 2; }
cp $V/known_findings.json "$SV/"
OUT=$V/seeded/RESULTS.json.tmp; echo "[" > $OUT; first=1; miss=0
for d in $V/seeded/*/; do
  name=$(basename "$d")
  case "$name" in *"${1:-}"*) ;; *) continue ;; esac
  prop=$(python3 -c "import json;print(json.load(open('$d/meta.json'))['property'])")
  (cd "$WT" && git apply "$d/patch.diff") || { echo "SEED $name: patch does not apply"; miss=1; continue; }
  out=$("${GOVC:-$V/bin/govc}" check -prop "$prop" -tier quick -repo "$WT" -verif "$SV" -noreplay 2>&1); rc=$?
  (cd "$WT" && git apply -R "$d/patch.diff")
  obl=$(echo "$out" | grep "failed obligation" | sed 's/^ *failed obligation: *//' | cut -d' ' -f1-2 | head -6 | python3 -c "import sys,json;print(json.dumps([l.strip() for l in sys.stdin]))")
  nv=$(echo "$out" | grep -c '^VIOLATION')
  [ $first -eq 1 ] || echo "," >> $OUT; first=0
  echo "{\"seed\":\"$name\",\"property\":\"$prop\",\"exit\":$rc,\"violation_lines\":$nv,\"failed_obligations\":$obl}" >> $OUT
  if [ $rc -eq 1 ] && [ $nv -gt 0 ]; then echo "SEED $name: detected ($prop) $obl" | cut -c1-220; else echo "SEED $name: NOT DETECTED rc=$rc"; echo "$out" | tail -3; miss=1; fi
done
echo "]" >> $OUT
[ -z "${1:-}" ] && mv $OUT $V/seeded/RESULTS.json || rm -f $OUT
echo "seedall: missed=$miss"
exit $miss
