#!/bin/bash
# runs the quick check of every claimed property and prints one summary line each
cd /verif
for p in $(python3 -c "import json; print(' '.join(c['property_id'] for c in json.load(open('MANIFEST.json'))['checks']))"); do
  out=$(./check $p quick 2>&1); rc=$?
  echo "rc=$rc $(echo "$out" | tail -1)"
  [ $rc -ne 0 ] && echo "$out" | grep "failed obl\|ENGINE" | cut -c1-200 | head -5
done
