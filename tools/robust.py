#!/usr/bin/env python3
"""Solver-stability survey (development aid, not a registered check).

  tools/robust.py <property-id> [...]

Runs `govc check -keep -noreplay` for the property, then decides every kept SMT script (full and sliced) with
several back-end configurations and lists the obligations that only one or two configurations can discharge:
those are the proofs that may flip to "unknown" on another machine or load, i.e. future false alarms. The
remedy is a contract with explicit witnesses/triggers, not a longer timeout.
"""
import glob, json, os, subprocess, sys, time
from concurrent.futures import ThreadPoolExecutor

CONFIGS = [
    ("z3-new", ["z3-new", "-T:10"]),
    ("z3-new/s1", ["z3-new", "-T:10", "smt.random_seed=1"]),
    ("z3-new/s2", ["z3-new", "-T:10", "smt.random_seed=2"]),
    ("z3-new/s3", ["z3-new", "-T:10", "smt.random_seed=3"]),
    ("z3", ["z3", "-T:10"]),
    ("cvc5", ["cvc5", "--tlimit=10000"]),
]


def run(job):
    f, name, argv = job
    t0 = time.time()
    try:
        out = subprocess.run(argv + [f], capture_output=True, text=True, timeout=15).stdout
    except subprocess.TimeoutExpired:
        out = "timeout"
    first = next((l.strip() for l in out.splitlines() if l.strip()), "")
    return f, name, first if first in ("sat", "unsat") else "unknown", time.time() - t0


def main():
    for prop in sys.argv[1:]:
        subprocess.run(["/verif/bin/govc", "check", "-prop", prop, "-tier", "quick", "-keep", "-noreplay"],
                       stdout=subprocess.DEVNULL)
        ev = json.load(open(f"/verif/evidence/{prop}.json"))
        status = {o["name"]: o for o in ev["coverage"]["per_obligation"]}
        files = sorted(glob.glob(f"/verif/work/{prop}/*.smt2"))
        files = [f for f in files if "_cover_" not in f and ".values." not in f]
        jobs = [(f, n, a) for f in files for n, a in CONFIGS]
        res = {}
        with ThreadPoolExecutor(max_workers=8) as ex:
            for f, n, v, dt in ex.map(run, jobs):
                res.setdefault(f, {})[n] = (v, dt)
        # group sliced + full per obligation
        byob = {}
        for f, r in res.items():
            base = os.path.basename(f)
            key = base.replace(".sliced.smt2", "").replace(".smt2", "")
            byob.setdefault(key, {})["sliced" if base.endswith(".sliced.smt2") else "full"] = r
        weak = []
        for key, d in sorted(byob.items()):
            provers = set()
            for kind, r in d.items():
                for n, (v, dt) in r.items():
                    if v == "unsat":
                        provers.add(f"{n}@{kind}")
            # default pipeline: z3-new@sliced, race@sliced, z3-new@full, race@full
            families = {p.split("/")[0].split("@")[0] for p in provers}
            allseeds = all(any(f"{c}@{k}" in provers for k in d) for c in ("z3-new", "z3-new/s1", "z3-new/s2", "z3-new/s3"))
            if len(families) >= 2 or allseeds:
                continue
            weak.append((key, sorted(provers)))
        print(f"{prop}: {len(byob)} obligations surveyed, {len(weak)} weak (one solver family, not all seeds)")
        for k, p in weak:
            print("   ", k, p)
        subprocess.run(["rm", "-rf", f"/verif/work/{prop}"])


if __name__ == "__main__":
    main()
