#!/usr/bin/env python3
"""tools/seedmeta.py <name> [note]: records the outcome of tools/seedcheck.sh (log /tmp/seedcheck_<name>.log) in seeded/<name>/meta.json"""
import json, re, sys
name = sys.argv[1]
note = sys.argv[2] if len(sys.argv) > 2 else ""
log = open(f"/tmp/seedcheck_{name}.log").read()
viol = [l for l in log.splitlines() if l.startswith("VIOLATION")]
failed = [re.sub(r"^\s*failed obligation:\s*", "", l)[:160] for l in log.splitlines() if "failed obligation" in l]
p = f"/verif/seeded/{name}/meta.json"
m = json.load(open(p))
prop = m.get("property")
m["verif_check"] = {"cmd": f"./check {prop} quick (patch applied to /repo, then reverted)", "detected": bool(viol),
                    "failed_obligations": failed[:8], "n_violation_lines": len(viol), "summary": log.strip().splitlines()[-1] if log.strip() else ""}
if note:
    m["verif_check"]["history"] = note
m["confirmed_by_me"] = "tools/seedcheck.sh: demo test fails with the change and passes without it; baseline-passing tests of the touched packages still pass with the change"
json.dump(m, open(p, "w"), indent=1)
print(name, "detected" if viol else "NOT DETECTED", len(viol))
