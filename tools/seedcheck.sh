#!/bin/bash
# tools/seedcheck.sh <prop> <worktree> <name> <pkgs...>
# Confirms a seeded change (demo fails with it, passes without; baseline tests of <pkgs> still pass),
# stores it under /verif/seeded/<name>/ and runs the property check against it on /repo (applied, then undone).
set -u
SEED_TESTFLAGS=${SEED_TESTFLAGS:-}
export GOFLAGS=-mod=mod GOPROXY=off GOSUMDB=off GOTOOLCHAIN=local
prop=$1; wt=$2; name=$3; shift 3; pkgs="$@"
S=$wt/_seed
[ -f $S/patch.diff ] || { echo "no patch.diff"; exit 2; }
demo=$(ls $S/*_test.go | head -1)
demodir=$(cd $wt && git status --short | grep "zz_seed_demo_test.go" | awk '{print $2}' | xargs dirname)
echo "demo dir: $demodir"
cd $wt
go build ./... || { echo "BUILD FAILS"; exit 1; }
echo "--- demo WITH change (must fail)"
go test $SEED_TESTFLAGS -vet=off -count=1 -run 'Seed|seed' ./$demodir/ 2>&1 | tail -3
git apply -R $S/patch.diff || { echo "cannot revert patch"; exit 1; }
echo "--- demo WITHOUT change (must pass)"
go test $SEED_TESTFLAGS -vet=off -count=1 -run 'Seed|seed' ./$demodir/ 2>&1 | tail -3
git apply $S/patch.diff
echo "--- baseline tests with change"
mv $wt/$demodir/zz_seed_demo_test.go /tmp/zz_seed_demo_test.go.$$
go test $SEED_TESTFLAGS -json -vet=off -count=1 $pkgs 2>/dev/null | python3 -c "
import sys,json
ok=set()
for l in sys.stdin:
    try: e=json.loads(l)
    except: continue
    if e.get('Action')=='pass' and e.get('Test'): ok.add(e['Package']+'::'+e['Test'])
b=json.load(open('/root/.vp/BASELINE.json'))
pk=set(p.replace('./','github.com/XiaoMi/Gaea/').rstrip('/') for p in '$pkgs'.split())
sp=set(t for t in b['stable_pass'] if t.split('::')[0] in pk)
print('pass now',len(ok),'baseline',len(sp),'missing',sorted(sp-ok)[:10])"
mv /tmp/zz_seed_demo_test.go.$$ $wt/$demodir/zz_seed_demo_test.go
mkdir -p /verif/seeded/$name && cp $S/patch.diff $S/meta.json $demo /verif/seeded/$name/
echo "--- property check on /repo with the change applied"
cd /repo
[ -z "$(git status --short | grep -v goyacc | grep -v '^??')" ] || { echo "REFUSING: /repo has uncommitted changes to tracked files"; exit 3; }
git apply /verif/seeded/$name/patch.diff || { echo "patch does not apply to /repo"; exit 1; }
# the run against the changed tree must not leave its evidence behind: the committed evidence belongs to the unchanged tree
cp /verif/evidence/$prop.json /tmp/seedcheck_evidence_$prop.json 2>/dev/null
(cd /verif && ./check $prop quick > /tmp/seedcheck_$name.log 2>&1; echo "check exit=$?"; grep -c "^VIOLATION" /tmp/seedcheck_$name.log; grep "failed obligation" /tmp/seedcheck_$name.log | cut -c1-220 | head -5; tail -1 /tmp/seedcheck_$name.log)
git -C /repo apply -R /verif/seeded/$name/patch.diff
[ -f /tmp/seedcheck_evidence_$prop.json ] && mv /tmp/seedcheck_evidence_$prop.json /verif/evidence/$prop.json
rm -rf /verif/replays/$prop
git -C /repo status --short | grep -v goyacc
