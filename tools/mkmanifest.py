#!/usr/bin/env python3
"""Regenerates /verif/MANIFEST.json from the claim table below (kept here so the manifest stays valid)."""
import json, subprocess, sys

PROPS = [json.loads(l)["id"] for l in open("/verif/properties.jsonl")]

# id -> (level text, level_note, design_ref)
CLAIMS = {
 "C12": ("Every function of the length-encoded/fixed-width wire codec in mysql/encoding.go is verified against a functional contract "
         "(bit-vector semantics, all inputs, no bound): decoders are total and in-bounds for every buffer and position, report ok exactly "
         "when the encoded value lies inside the input, and return the MySQL-defined value; encoders produce bytes whose decoding is the "
         "input (round trip as postconditions over the shared spec functions encLen/decLen/decVal).",
         "Trusted: go/ssa lowering, the govc encoding, the SMT solvers; trusted contracts for bytes.IndexByte and "
         "binary.LittleEndian.Uint16/32/64; append's in-place write is not checked against assigns; positions < 2^62.",
         "DESIGN.md section 4, C12"),
}

CLAIMS["C09"] = (
    "Range rules: NumKeyRange.Contains, NumValue, NumRangeShard.FindForKey/EqualStart and ParseNumSharding are verified against the half-open "
    "interval specification for every key and every range table (loop invariants, unbounded); keys outside every interval are rejected. "
    "Calendar rules: getNumYear/getNumYearMonth/getNumYearMonthDay are panic-free for every key, return the period read from the 10-character "
    "spelling, and unix-timestamp keys and their 'YYYY-MM-DD' spelling are placed identically (over trusted contracts for time.Unix/Format/Year "
    "and strconv.Atoi). Acceptance of malformed string keys is a recorded known finding (residual obligations verified). Period lists of a "
    "date_range entry: ParseYearRange returns the single year or every year from the earlier to the later end, in order, each once; "
    "ParseMonthRange every month of the span in order with the year rolling over after December (element k is month lo+k, loop invariant "
    "over a month clock), also for descending spans (ends swapped); both reject ends of the wrong length (year spans: fixed in /repo, "
    "ea1c69a).",
    "Trusted: strconv.ParseInt/Atoi, time.Unix/Format/Year as uninterpreted functions with the stated relations; hack.String; configuration size "
    "bounds in ParseNumSharding's precondition (<=1024 slices, <=2^20 tables each, row limit < 2^31); strings.SplitN as uninterpreted "
    "parts, byte-wise string order as an uninterpreted strict order, Atoi of <= 4 characters is within -999..9999; the month clause is "
    "stated for spans whose first month is 1..12 (month numbers are not validated by the parser); ParseDayRange (time.Parse / Add / "
    "Format loop) is not under contract.",
    "DESIGN.md section 4, C09")

CLAIMS["C01"] = (
    "Routing soundness as contracts: for every rule, key order and operator, the comparison-routing closure (=, <>, <, <=, >, >=), "
    "adjustShardIndex, BETWEEN / NOT BETWEEN routing, the list kernel (makeList, interList, unionList with loop invariants: sortedness, "
    "soundness, completeness), RouteResult.Inter/Union and the AND/OR merge return lists that contain the table of every key satisfying the "
    "condition (forall over all keys, unbounded). The interface contracts they rely on (monotone placement, EqualStart true only for the "
    "smallest key of a table) are discharged for NumRangeShard (with a monotonicity lemma) and for the calendar shards' EqualStart. "
    "IN / NOT IN (getPatternInRouteResult, any list length): for `shardcol IN (v1..vn)` the route lists the table of every value and the "
    "value list rewritten for a table contains every value placed there (ghost position witness); NOT IN, other columns and global tables "
    "are never pruned (all tables, each with a value list).",
    "Trusted/assumed: go/ssa, govc, solvers; Rule getters as deterministic functions (immutable rule, C07); axioms subTablesWF, rangeMonotone "
    "for calendar shards (chronological order vs strconv.Atoi), kltAsym, placeBounded; util.GetValueExprResult as uninterpreted valueOf. "
    "NOT under contract: the AST visitor that dispatches to these functions (handleComparisonExpr, handleBinaryOperationExpr*, decorators), "
    "alias resolution; sort.Ints is trusted to permute; that the broadcast value lists are COMPLETE copies is not stated "
    "(getBroadcastValueMap: every table gets an entry).",
    "DESIGN.md section 4, C01")
CLAIMS["C21"] = (
    "isSQLNotAllowedByUser rejects every mutating statement kind (INSERT, REPLACE, UPDATE, DELETE, DDL; one obligation per kind) for a user "
    "without write permission; checkSQLAllowed returns an error whenever it does; in doQuery every call other than the check itself carries "
    "the obligation that the statement kind is allowed for the user (dominance of the check over planning and backend access).",
    "Trusted: parser.Preview as an uninterpreted classification of the text (LOAD DATA is classified unknown: recorded finding), "
    "RequestContext.SetStmtType has no effect on session state, session invariant knownUser; that handleQuery/doMultiStmts/handleStmtExecute "
    "reach the backends only through doQuery is read from the call structure, not mechanised.",
    "DESIGN.md section 4, C21")

CLAIMS["C34"] = (
    "getSeqFromDB succeeds only when both fields of the reply parse and the increment is positive, and then caches exactly the granted "
    "block (curr, curr+incr]; a failed fetch leaves the cached block unchanged; NextSeq returns values that are strictly increasing per "
    "object, lie inside the cached block and come from a successfully parsed reply after a refetch (ghost record of the parsed reply).",
    "Trusted: the stored function's grants are increasing and below 2^61 (database model, assumed clause), strconv.ParseInt / strings.Split, "
    "backend connection methods do not write the sequence object, sync.Mutex makes NextSeq atomic (no concurrency modelled); disjointness "
    "across proxies is the meta-argument 'disjoint grants' and is not mechanised.",
    "DESIGN.md section 4, C34")

CLAIMS["C25"] = (
    "balancer.next advances the 32-bit counter by one and returns the queue entry at counter mod len(Q) (atomic add modelled as a cell "
    "operation); lemma rrStep: consecutive calls visit consecutive queue positions mod len(Q) while the counter does not wrap (so any len(Q) "
    "consecutive selections visit every queue position once); the wrap case is a recorded known finding (lemma rrStepAcrossWrap fails). "
    "getNodeFromBalancer returns only nodes that are up and are candidates of the given balancer; GetSlaveConn consults only the local "
    "balancer under forced-local reads, local then remote under preferred-local, the global one otherwise (call-site obligations). "
    "gcd / gcd$1 return a positive common divisor of all weights (Euclid loop invariant over divisibility); newBalancer's queue lists every "
    "candidate at least once and nothing but candidates (nested loop invariants; the shuffle is a trusted permutation). "
    "getIndicesAndWeights (loop invariants, any number of nodes): the global candidate list holds exactly the nodes with a positive weight, "
    "each once, in node order, paired with its weight; the local list exactly those of the proxy's datacenter, the remote list exactly "
    "the others.",
    "Trusted: sync/atomic as sequential cell operations, DBInfo mutex, rand.Shuffle permutes, divisibility axioms (divTrans, divGE: "
    "nonlinear). NOT proved: that candidate k occurs EXACTLY weight_k/gcd times in the queue (only 'at least once, candidates only', and "
    "that the divisor is common -- not that it is the greatest); InitBalancers (wiring the three lists into the three balancers) is not "
    "under contract; the "
    "pigeonhole step from rrStep to the window statement is a meta-argument.",
    "DESIGN.md section 4, C25")

CLAIMS["C11"] = (
    "Writer: every Write issued by Conn.WritePacket is one well-formed frame (call-site obligations: 3-byte little-endian length = "
    "min(remaining, 2^24-1), the running sequence id, exactly the next payload bytes), an empty terminating frame is written exactly after a "
    "payload that is a positive multiple of 2^24-1, and on success the sequence id has advanced by len/MAX+1 (ghost frame counter, loop "
    "invariant, unbounded payload). Reader: readHeaderFrom accepts a frame only with the expected sequence id (also for empty frames), "
    "advances it by one and returns the 24-bit length; readOnePacket consumes exactly one frame and returns a buffer of exactly the "
    "announced length. Reassembly (readPacket, ReadEphemeralPacket incl. the pooled-buffer path; loop invariants, any number of frames): "
    "frames are consumed in order up to and including the first one shorter than 2^24-1 bytes, the packet's length is the sum of the "
    "announced lengths (every frame but the last is full, the last is shorter), and the expected sequence id has advanced by the number of "
    "frames consumed (ghost frame counters).",
    "Trusted: io.ReadFull fills the buffer or fails, io.Writer.Write, bytes.Buffer (NewBuffer/Write/Bytes contracts), bucketpool.Get returns "
    "a buffer of the requested length. The BYTES of a frame body are whatever io.ReadFull delivered: that the reassembled packet is the "
    "concatenation of the bodies rests on the engine's append semantics (prefix preserved), it is not stated as a sequence equality. ReadEphemeralPacketDirect (handshake) "
    "returns one short frame or fails. NOT under contract: the ephemeral write path (StartEphemeralPacket / writeEphemeralPacket).",
    "DESIGN.md section 4, C11")

CLAIMS["C16"] = (
    "After COM_STMT_EXECUTE on a known statement every return path -- success, malformed packet, binder or rewrite error -- leaves all "
    "parameters of that statement unbound (deferred reset registered right after the lookup; obligations per return); unknown ids fail; "
    "handleStmtReset clears the statement; handleStmtSendLongData writes exactly one parameter slot of exactly one statement (frame "
    "obligation per store) and rejects unknown ids / out-of-range parameters; bindStmtArgs and the binary date formatters write only the "
    "statement's args (frame verified in bit-vector mode); handleStmtClose removes exactly the named statement (every other id keeps its "
    "statement object); handleStmtPrepare registers a fresh statement object under the session's next id with every parameter unbound and "
    "leaves every other registered statement untouched (a statement that cannot be prepared registers nothing).",
    "Assumed: handleQuery and GetRewriteSQL do not write the statement table or Stmt fields (assumed callee contracts, listed in the evidence); "
    "panic paths are not modelled (bindStmtArgs may panic on truncated values; the deferred reset runs during unwinding); the session "
    "invariant stmtWF (len(args) == paramCount) is assumed at entry; fewer than 2^32 prepares per session (the id counter would wrap "
    "onto a live statement); 'statements never see each other's values' is decided per command, the history quantifier is induction "
    "over the commands (meta-argument).",
    "DESIGN.md section 4, C16")

CLAIMS["C31"] = (
    "The two-generation reload protocol as per-operation contracts over the abstract view (active generation index, staged generation, "
    "prepared flag, ghost name of the last prepare): Prepare stages fresh copies in the inactive generation and never touches the active "
    "one; Commit(name) switches generations exactly when a prepare is pending for that very name (another name is rejected and the "
    "prepare stays pending; no pending prepare is an error) and clears the flag; Delete stages a copy, activates it and invalidates a "
    "pending prepare; BoolIndex and AtomicBool are verified against their cell specifications. Any sequential history of these "
    "operations therefore activates exactly the configuration last prepared for the committed name (induction over the history: "
    "meta-argument over the contracts, not mechanised).",
    "Assumed callee contracts (frames: they never write the manager's own fields): ShallowCopyNamespaceManager, CloneUserManager, "
    "RebuildNamespace(+ 'the rebuilt namespace is present'), DeleteNamespace, RebuildNamespaceUsers, ClearNamespaceUsers, NewSQLResponse, "
    "clearBackendConnectPoolMetrics, Namespace.Init; go statements (Close) assumed not to write manager fields; operations are assumed "
    "atomic (they take no lock); 'sessions observe one generation' is concurrency and is not decided.",
    "DESIGN.md section 4, C31")

CLAIMS["C07"] = (
    "Frame half of the property as a type-level frame condition: outside the listed constructors, no function of proxy/router, proxy/plan "
    "and proxy/server stores to a field of the router, rule or shard types, to a map or slice reachable from such a field (including values "
    "handed out by their getters and by the router.Rule / router.Shard interfaces), or lets the address of such a field escape into a call. "
    "Every store / map update / delete / copy site of those packages (about two thousand) is one obligation, decided by the frame checker "
    "on the SSA on every run.",
    "The frame checker is syntactic (no points-to analysis): a pointer to a routing object stored in an unrelated structure and written "
    "through it would not be seen; SetWeightMapFromFile is treated as a construction-time setter (no caller in the repository). That "
    "planning then yields the same plans as planning alone follows from 'plan construction reads only its arguments and immutable "
    "router state' (meta-argument, not mechanised; rand in global-table reads excepted). The schedule quantifier itself is not explored.",
    "DESIGN.md section 4, C07")

CLAIMS["C39"] = (
    "Row reader of one backend result (readResultRows): a nil error with no 'more rows' flag implies the EOF packet was seen (ghost flag: "
    "the result is complete); the result is abandoned with the row-limit error only when strictly more than maxRows rows arrived "
    "(call-site obligation at drainResults), so a result of at most maxRows rows is delivered in full; with maxRows == 0 the limit branch is "
    "unreachable; on success the number of rows never exceeds the limit (loop invariant, unbounded number of packets).",
    "Assumed callee contracts: readPacket / handleErrorPacket / drainResults / RowData.Parse do not touch the result being built; panics on "
    "empty packets are not modelled; the multi-shard merge (ExecuteSQLs, goroutines) that must honour the 'more rows' flag and the "
    "streaming path in client_conn.go are outside the subset and not under contract.",
    "DESIGN.md section 4, C39")

CLAIMS["C26"] = (
    "The sliding-window breaker against an abstract view (viewAt(s) = errors recorded at second s that the window remembers), proved once per "
    "window size W = 1..8 (the property's own range; sums expand to W terms) and for every timestamp, gap, threshold and count: "
    "NewSlidingWindow is enabled exactly for positive size and threshold and starts empty; slide forgets exactly the seconds before the new "
    "start (loop invariant) and keeps the running total equal to the sum of the buckets; Trigger(now) adds one to second now, leaves every "
    "other second of (now-W, now] as recorded, and returns true iff the sum of the view over (now-W, now] reaches the threshold; a disabled "
    "window never fires and is unchanged (representation invariant: distinct bucket objects, non-negative counts, total = sum, nothing "
    "recorded after the latest timestamp). Slice.TryFuse hands only connection errors (mysql.ConnTypeError) to the window and marks the "
    "replica down exactly when the window fires (call-site obligations and postconditions).",
    "Assumed: timestamps are non-decreasing and within [0, 2^62), fewer than 2^62 errors per window (preconditions); sync.Mutex makes Trigger "
    "atomic; the interface call FuseStrategy.Trigger is represented by a frame-only contract (its one implementation, SlidingWindow.Trigger, "
    "is verified against the same frame). 'The view equals the true event log restricted to the trailing window' is induction over the "
    "history from the per-call contract (meta-argument, not mechanised). Window sizes above 8 are not covered.",
    "DESIGN.md section 4, C26")

CLAIMS["C27"] = (
    "Hard policy: AllowRecovery answers yes exactly when the clock read is at least lastFuseTime + coolingPeriod; a probe round "
    "(checkWithHardRecovery) turns a down replica up only after AllowRecovery said yes in that round (every return path, including the "
    "master-down shortcut, fixed in /repo), and does turn it up when the probe passed, the master is up, replication is fine and recovery "
    "is allowed; TryFuse stamps lastFuseTime with the current second at every fuse, also when the replica is already down. Gradual policy: "
    "AllowRecovery says yes only with the skip counter at 0 and otherwise consumes one skip; the penalty is min(n(n+1)/2, 120) of the "
    "bad-recovery count and monotone in it (lemma); a failed probe of a down replica re-arms the counter; a fuse within 2 ping periods of the "
    "last recovery increments the bad-recovery count, a later one resets it; a probe round turns a down replica up only when the counter had "
    "run out. TryRecover dispatches each policy to its round function.",
    "Trusted: time.Now is monotone (ghost clock), sync/atomic and sync2.AtomicInt64 as sequential cells (verified as such); assumed callee "
    "contract: checkInstanceStatus (the probe I/O) stamps lastChecked or leaves it; GetSlaveStatus writes nothing of the node. The history "
    "quantifier (every interleaving of fuses, probes and clock advances) is induction over these per-operation contracts (meta-argument); "
    "concurrent probe and fuse on one node are not modelled.",
    "DESIGN.md section 4, C27")

CLAIMS["C28"] = (
    "Per probe round, for replicas without policy, with hard and with gradual policy (postconditions over the round's observations): the "
    "down-after decision is taken after this round's probe and with the configured period; a node that has not passed a probe for that period "
    "is marked down; otherwise, with the master up, replication trouble (lag above the limit, a stopped IO/SQL thread, a failing SHOW SLAVE "
    "STATUS) marks it down, a passed probe marks a down replica up (subject to C27), a failed probe leaves it as it is. checkSlaveSyncStatus: "
    "alive iff the limit is 0, there is no connection, the server is to be skipped, or lag <= limit and both threads are 'Yes'. "
    "ShouldDownAfterNoAlive: true iff now - lastChecked >= period. 'No other event changes a node's status': outside SetStatusUp / "
    "SetStatusDown and the policy initialisation no function of packages backend and proxy/server stores to a NodeInfo field or lets its "
    "address escape (type-level frame, one obligation per store site). Recorded finding: with the master down a down replica is marked up "
    "even when its own probe failed in that round.",
    "Not under contract: the ticker loops (select, goroutines) and the master's own round inside checkBackendMasterStatus, checkInstanceStatus "
    "(probe I/O, retries) and GetSlaveStatus (result parsing) -- assumed frames, listed in the evidence; that SetStatusUp/Down are called only "
    "from the round functions and TryFuse is read from the call structure, not mechanised. The history quantifier is induction over rounds "
    "(meta-argument).",
    "DESIGN.md section 4, C28")

CLAIMS["C35"] = (
    "IsClientIPAllowed returns true iff the allow-list is empty or some entry matches the address (loop invariant, any list length); an entry "
    "matches by containment when it was configured as a CIDR block and by address equality otherwise (IPInfo.Match, ParseIPInfo: a text that "
    "parses as CIDR becomes a block with exactly that network, else an address, else an error); parseAllowIps lists exactly the non-blank "
    "configured entries after trimming (every entry is present, nothing else is) or rejects the whole list when one does not parse. "
    "Session.IsAllowConnect (the connection gate) admits a client iff its namespace exists and IsClientIPAllowed admits the IP parsed from "
    "the connection's remote address.",
    "Trusted: net.ParseCIDR, net.ParseIP, net.SplitHostPort, the connection's RemoteAddr().String(), (*net.IPNet).Contains, net.IP.Equal "
    "and strings.TrimSpace as uninterpreted functions -- prefix matching and the IPv4 / IPv4-mapped equivalence are the standard "
    "library's and are not proved here.",
    "DESIGN.md section 4, C35")

CLAIMS["C37"] = (
    "The timing wheel against the abstract view ticksLeft(key) = distance of the key's bucket from the hand + whole turns * wheel size "
    "(symbolic wheel size and tick): add registers the key ticksLeft = delay/tick ticks ahead, whatever was registered for it before "
    "(a re-registration moves the key's single entry and restarts the count; the entry carries the new callback), and leaves every other key "
    "alone; handleTick forgets exactly the keys with no ticks left (whose callbacks it starts), brings every other key one tick closer and "
    "advances the hand modulo the wheel size (loop invariant over the ranged bucket map with its visited set); remove forgets the key so "
    "that no later tick fires it; NewTimeWheel builds a well-formed empty wheel; all preserve the representation invariant (one "
    "registration per key, index map and buckets consistent). Recorded finding: the delay is truncated to whole ticks, so a timeout that "
    "is not a multiple of the tick fires up to one tick early (residual obligation for multiples of the tick is discharged).",
    "Trusted: Duration.Seconds and the float -> int conversion as uninterpreted functions; the callback runs in a goroutine whose effect is "
    "outside the view ('closed exactly once' = its key leaves the wheel when it is started); the pipeline goroutine that feeds add / remove / "
    "handleTick from the channel (select, sleep) and Session.Run's use of the wheel are not under contract; 'fires at the d-th tick after "
    "the last add' is induction over ticks from these contracts (meta-argument). Nonlinear arithmetic (turns * size) is decided by z3 5.1 only.",
    "DESIGN.md section 4, C37")

CLAIMS["C33"] = (
    "Crypto kernel of the stored-configuration round trip: pkcs5Padding appends padLen = bs - len mod bs bytes, each holding padLen, after "
    "the unchanged data (any length, any block size 1..255); pkcs5UnPadding is panic-free for EVERY byte string, strips exactly the number of "
    "bytes its last byte names and fails exactly when that exceeds the length; lemma padRoundTrip: the pad length is 1..bs, completes a block "
    "and unpadding a padded text of n bytes leaves n bytes -- with the two contracts this is unpad(pad(d)) == d. The ECB block walks "
    "(encrypter and decrypter, loop invariants) reject partial blocks and short outputs and otherwise hand only whole blocks to the cipher "
    "(the preconditions under which crypto/aes panics never arise) and write only dst[0:len(src)]; EncryptECB returns len(data)+padLen "
    "bytes; DecryptECB on any input returns an error or data, never panics. Storage-area half: LocalClient.safeJoinPath accepts a path "
    "only as its cleaned, root-relative form and only when THAT form is not '..', does not start with '../', contains no '/../', no "
    "forbidden character and at most 1024 bytes (the checks are made on the form that is returned, not on the raw input); "
    "FullNamespacePath hands out a file name only for an accepted path.",
    "Trusted: crypto/aes.NewCipher, cipher.Block.Encrypt/Decrypt (one block in, one block out, mutually inverse: the inverse property is not "
    "modelled, so 'DecryptECB(EncryptECB(d)) == d' is decided up to the cipher), bytes.Repeat. filepath.IsAbs / Rel / Clean / Join and strings.HasPrefix / "
    "Contains / ContainsAny are uninterpreted (what 'cleaned' means, and that a cleaned path without the three patterns stays below the "
    "storage directory, is the standard library's semantics, not proved). NOT under contract: base64 / JSON encoding of the stored "
    "values, the key derivation, Store.UpdateNamespace / LoadNamespace, SyncNamespaces.",
    "DESIGN.md section 4, C33")

CLAIMS["C30"] = (
    "The parts of the password checks that do not depend on digest values: mysql.CheckHashPassword accepts only proofs of exactly 20 bytes, "
    "is panic-free for every response length and has an empty frame -- it never modifies the client's response or the salt (fixed in /repo: "
    "it used to xor into the response, so later candidates and the clear-text fallback saw a corrupted response); CalcPassword / "
    "CalcCachingSha2Password return a fresh 20 / 32-byte scramble (nil for an empty password) and modify none of their arguments; the user "
    "manager's candidate loops (CheckPassword, CheckHashPassword, CheckSha2Password) write nothing, accept only a password configured for "
    "that user, treat only '*' + 40-character entries as stored hashes, and accept only responses of the scramble's length.",
    "SHA-1 / SHA-256 are opaque (trusted hash.Hash: Write/Reset/Sum touch only the hash object, Sum returns a fresh digest of the hash's size): "
    "that an accepted response EQUALS MySQL's proof for some configured password -- the digest algebra SHA1(pw) xor SHA1(salt ++ SHA1(SHA1(pw))) "
    "-- is NOT decided; the auth-plugin selection in Session.handleHandshakeResponse is not under contract (known: with an explicit "
    "mysql_native_password plugin the stored-hash form is never consulted; read from the code, no obligation).",
    "DESIGN.md section 4, C30")

CLAIMS["C10"] = (
    "Hash, mod and range rules (locations lists), as a relation between the control-plane validator and the router's parser over the prefix "
    "sums psum of the locations: models.verifyHashRuleSliceInfos accepts a list only with one entry per slice, no negative entry and at least "
    "one table (the last two fixed in /repo), and the layout it computes has domain [0, sum) and maps table t to the slice i with psum(i) <= t "
    "< psum(i+1); router.parseHashRuleSliceInfos, for every list the validator accepts, returns the sub-table list 0..sum-1 in order and "
    "exactly the same table -> slice map (nested loop invariants, any number of slices and tables): every listed table belongs to exactly one "
    "slice and the mapping follows the locations. HashShard / ModShard.FindForKey name only listed tables (0 <= index < ShardNum for every "
    "key; ModShard fixed for math.MinInt64). verifyDefaultSlice: an accepted default slice is one of the namespace's slices (recorded finding: "
    "an empty default_slice is accepted although NewRouter rejects it); includeSlice (both packages) is exact membership. The mycat and "
    "global-table variants of the parser (parseMycatHashRuleSliceInfos, parseGlobalTableRuleSliceInfos) return exactly the hash layout "
    "and succeed only if the number of tables equals the number of physical databases named (global tables: when a database list is "
    "given). Negative PartitionByLong parameters (accepted by the validator, crashing the load) were repaired in /repo (7d1fd02).",
    "Assumed: configuration size bounds (<= 1024 slices, <= 2^20 tables per slice); psum is specified by two definitional axioms over the "
    "list at function entry (the functions never write it). NOT under contract: NewRouter / parseRule as a whole (rule-type dispatch, "
    "case-folding of table names, linked-rule parent lookup), the calendar rule parsers, MycatPartitionLongShard.Init and the validator's copy of it, database-list expansion (regexp: an "
    "uninterpreted count), "
    "Namespace.Verify's other checks (users, charset, allow-lists): 'accepted configurations load' is decided for the layout kernel only.",
    "DESIGN.md section 4, C10")

CLAIMS["C13"] = (
    "AppendBinaryValue (bit-vector semantics, every input): an integer value of any Go integer kind is written as the low 1 / 2 / 4 / 8 "
    "bytes, little-endian, of its 64-bit two's-complement value for TINY / SHORT,YEAR / LONG,INT24 / LONGLONG columns; a []byte or string "
    "value for a string-like column type (the MySQL list including ENUM and SET -- fixed in /repo -- JSON, BIT, the BLOBs, NEWDECIMAL) is "
    "written with a valid length prefix: total length = prefix + payload, the prefix decodes (lenenc) to the payload length and is never "
    "the NULL marker 0xfb; or an error is returned; on success the bytes already in the row are unchanged. AppendUint16 / AppendUint32 "
    "append the little-endian bytes. BuildBinaryResultset (nested loop invariants, any number of rows and columns): a row whose column "
    "count differs from the field list is rejected; every stored row starts with the 0x00 header byte and has room for the "
    "(n + 7 + 2) / 8 bitmap bytes; in the bitmap buffer that is copied into the row, bit j + 2 is set exactly when column j is NULL, the "
    "bits 0 and 1 and all bits beyond the columns are clear, and a NULL column appends no value bytes.",
    "NOT decided: that the payload bytes after the prefix equal the value (quantified obligation through two appends in bit-vector mode does "
    "not discharge within the budget and is not claimed); floats, decimals, DATE / DATETIME / TIMESTAMP / TIME encodings (strconv, time, "
    "decimal libraries; helpers have assumed frame-only contracts); RowData.ParseText; that the bitmap buffer lands at row[1:] of the "
    "stored row (the per-bit statement on stored rows was provable only by one solver configuration in 9-24 s and was left out rather "
    "than risk an alarm on the unchanged tree); that an integer "
    "fits the declared column width (ParseText parses every width with bitSize 64).",
    "DESIGN.md section 4, C13")

CLAIMS["C08"] = (
    "Against Mycat's algorithms transcribed as spec functions with Java int / long semantics (bit-vector mode, every input): Murmur3_32 "
    "-- mixK1, mixH1, fmix equal Guava's steps computed in 32-bit wrap-around arithmetic (the Go code detours through int64), and "
    "HashUnencodedChars is the char-pair fold over the key's character sequence with the single-character tail and the final mix (loop "
    "invariant, any key length); PartitionByString -- stringHash is the Java h*31+c hash of the window [max(start,0), min(end,length)) "
    "(0 for an empty window) and FindForKey resolves the configured hash slice as Mycat does and returns segment[hash & 1023]; "
    "PartitionByLong.FindForKey returns segment[key & 1023]; PartitionByMod.FindForKey returns |key| mod count inside [0, count) "
    "(fixed for math.MinInt64). Recorded finding: the string rule measures the key in bytes where Mycat counts characters (non-ASCII keys "
    "with a negative or open hash slice).",
    "Assumed: the rune sequence of a Go string equals Java's char sequence (true for BMP characters only; supplementary-plane characters "
    "are one rune and two Java chars) -- rune-len / rune-at are uninterpreted; NumValue / GetString parse keys as specified in C09. NOT under "
    "contract: PartitionByLong.Init (segment table construction from count/length lists), the murmur bucket map (treemap, virtual buckets, "
    "weights) and its Ceiling lookup, PaddingMod, so 'same physical database as Mycat' is decided for the hash kernels and the lookups only.",
    "DESIGN.md section 4, C08")

CLAIMS["C05"] = (
    "The two contract-expressible mechanisms of the property: (1) an UPDATE is accepted only when no assignment of its SET list targets the "
    "sharding column of the table the assigned column resolves to, and INSERT ... ON DUPLICATE KEY UPDATE only when none targets the "
    "sharding column of the inserted table (loop invariants over the assignment lists, any length; the comparison uses the lower-cased "
    "column name recorded before the qualifiers are stripped); (2) MergeExecResult returns the 64-bit sum of the shards' affected-row "
    "counts, the or of their status flags and the smallest non-zero insert id (fold specifications, loop invariant, any number of shards).",
    "Assumed: needCreateColumnNameDecorator (alias / database / table qualifier resolution of a column) as an uninterpreted function of the "
    "statement and the column node; the pooled result object is distinct from the shard results. NOT decided: that the statement is routed "
    "to every shard holding a matching row (the routing kernel is verified under C01; handleUpdateWhere / handleDeleteWhere, which reach "
    "it through the AST visitors, are not under contract), and the data half of the property (the rows changed equal those a single "
    "database would change) -- that needs an SQL execution semantics no contract here expresses.",
    "DESIGN.md section 4, C05")

CLAIMS["C18"] = (
    "Per operation, over the ownership ledger of pooled connections (ghost: connOut[c] = handed out, isMaster[c], sessOut = connections "
    "charged to the session): inside a transaction getTransactionConn serves a slice from the connection already pinned for it, otherwise "
    "from a connection freshly taken from the slice's MASTER pool that no one else holds (precondition of the pool contract), prepared and "
    "pinned -- so every statement of the transaction on that slice gets the same master connection (getBackendNoKsConn / getBackendConn "
    "dispatch: in a transaction only through getTransactionConn); COMMIT and ROLLBACK call Commit / Rollback on every transaction "
    "connection, return each exactly once, empty the transaction table and clear the in-transaction bit. handleBegin sets exactly the "
    "in-transaction bit (no connection is taken, returned or re-pinned; on a failed backend BEGIN the status is unchanged); "
    "handleSetAutoCommit(1) ends the implicit transaction like COMMIT (every transaction connection returned once, table emptied, "
    "in-transaction bit cleared, autocommit bit set), handleSetAutoCommit(0) only clears the autocommit bit.",
    "Assumed: Slice.GetMasterConn / GetConn hand out a connection not handed out already (pool guarantee) and GetMasterConn one of the "
    "master; PooledConnect methods other than Recycle do not touch session state; operations of one session are sequential (txLock). NOT "
    "under contract: the statement dispatch in handleQuery*, ExecuteSQL(s) (goroutines), "
    "read/write splitting inside GetConn: 'never on a replica' is decided for connections obtained through getTransactionConn only.",
    "DESIGN.md section 4, C18")

CLAIMS["C19"] = (
    "Ownership ledger of a session's backend connections (ghost connOut / sessOut; Recycle REQUIRES the connection to be handed out, so a "
    "double return fails a precondition; ledger invariant: every connection in txConns / ksConns is handed out, sits under one key only, and "
    "sessOut == len(txConns) + len(ksConns), i.e. nothing else is charged to the session): getTransactionConn and getBackendKsConn either "
    "pin the connection they took or close and return it exactly once and hand nothing to the caller (fixed in /repo: it was handed back "
    "and returned twice); commit, rollback (fixed: closed connections were skipped), handleKsQuit, clearKsConns and the failed-ping path "
    "(fixed: connections stayed pinned after being returned) return every connection they drop exactly once (loop invariants over the map "
    "ranges with visited sets and iteration counts); recycleBackendConns returns each per-statement connection once outside transactions; "
    "recycleBackendConn / recycleContinueConn (the per-statement exit): a connection taken for the statement only is returned exactly once "
    "(or kept as the streaming connection), a pinned open one stays pinned with the ledger intact, a closed keep-session connection is "
    "unpinned before it is returned (fixed in /repo, 58987ab: it stayed pinned and was returned again at client exit; unpinKsConn under "
    "contract). Recorded findings: recycleTx drops the transaction table without returning the other slices' connections, and the same "
    "defect seen from recycleBackendConn / recycleContinueConn (residual obligation: single-slice transactions, proved). A callee "
    "postcondition with a recorded finding is not assumed at its call sites (only under its residual condition).",
    "Assumed: pool contracts (see C18); how the statement's connection is held is a specification parameter (ghost pinKind / pinKey) tied "
    "to the tables by preconditions; keep-session sessions do not use the transaction table (getBackendConn dispatch); distinct slices "
    "hand out distinct connections is PROVED from the ledger, not assumed. NOT under "
    "contract: ExecuteSQL / ExecuteSQLs / executeUnshardSQLInSlice (timeouts, "
    "goroutines), Session.Close, the pool's own Put accounting (pooledConnectImpl.Recycle); the history quantifier is induction over "
    "operations preserving the ledger (meta-argument).",
    "DESIGN.md section 4, C19")

CLAIMS["C23"] = (
    "Keep-session mode, over the same ledger as C19: getBackendKsConn returns exactly the connection pinned for the slice and touches no "
    "pool when one is pinned; otherwise it takes one connection, prepares it and pins it (or returns it once on failure); getBackendConn "
    "dispatches keep-session clients there; clearKsConns closes and returns every pinned connection exactly once and empties the table "
    "exactly when keep-session is on, the namespace's change index has advanced and the client is NOT in a transaction, and otherwise "
    "changes nothing; shouldClearKsAndCloseSession is true exactly for keep-session clients inside a transaction (explicit or "
    "autocommit=0) after a configuration change, and execCommand then never reaches ExecuteCommand (call-site obligation); handleKsQuit "
    "releases everything at disconnect; the failed-ping path unpins what it returns (fixed).",
    "NOT decided: when (in which goroutine / command) a session observes the new change index, that the client of a refused command is "
    "actually disconnected (Session.Run loop), and that backend session state survives on the pinned connection (backend semantics).",
    "DESIGN.md section 4, C23")

CLAIMS["C04"] = (
    "For statements over global tables only: postHandleGlobalTableRouteResultInModify routes a write to the full copy list of the global "
    "rule (the route result's indexes ARE the rule's sub-table list), postHandleGlobalTableRouteResultInQuery routes a read to exactly one "
    "copy at a valid position of that list (rand.Intn trusted: 0 <= r < n, n > 0 proved), and both leave other statements' routes alone; "
    "generateShardingSQLs renders the statement once per routed index -- the count of rendered texts equals the number of indexes, none "
    "skipped or shared (ghost counter, loop invariant, any number of copies) -- asks the rule for the slice and the physical database of "
    "exactly that index (call-site obligations) and resets the cursor.",
    "Trusted / assumed: Rule accessors as deterministic functions of the immutable rule (C07); ast Restore and the restore context as "
    "effect-free on the route result. NOT decided: the database-name rewriting itself (TableNameDecorator / ColumnNameDecorator.Restore: string "
    "building inside the AST visitors), that the rendered text is filed in the map under the (slice, database) asked for (nested map-of-"
    "slices contents are not specified), INSERT routing for global tables (generateGlobalShardingSQLs), and that NewRouter gives a global rule "
    "the namespace's slices.",
    "DESIGN.md section 4, C04")

CLAIMS["C29"] = (
    "The credential tables of the user manager as an abstract relation (key -> namespace, user -> password list): addNamespaceUsers maps "
    "the key of every (user, password) of the namespace to that namespace and puts the password on the user's list, keeps every other key "
    "and every previously registered password (loop invariants, any number of users; password lists of different users never share a backing "
    "array); ClearNamespaceUsers removes exactly the keys mapped to that namespace, and a user loses exactly the passwords that some removed "
    "key names -- nothing else: every other (user, password) stays, nothing new appears (nested loop invariants over the ranged key map with "
    "its visited set and the filtered list), and keeps the password arrays of different users apart; CloneUserManager registers exactly the same keys, namespaces and per-user password lists in "
    "fresh tables and lists (so a reload works on a faithful copy); GetNamespaceByUser returns what is registered under the pair's key and "
    "the empty name otherwise; CheckUser is membership in the user table.",
    "Trusted: strings.Split at ':' as the uninterpreted userOf / passOf, with the axiom that they invert user + ':' + password for names and "
    "passwords WITHOUT ':' -- with ':' in a name or password the key is read back wrongly (recorded finding: credentials are not validated); "
    "listed heap-closure assumptions (password lists stored in the tables were allocated earlier). NOT under contract: RebuildNamespaceUsers "
    "(Clear then add: composition of the two contracts), the password checks themselves (C30), Session.handleHandshakeResponse; 'across "
    "reloads' is induction over Clone / Clear / add (meta-argument).",
    "DESIGN.md section 4, C29")

CLAIMS["C14"] = (
    "CalcParams against a spec lexer written from MySQL's lexical rules (state function qs over the statement text: statement text, "
    "'...' and \"...\" literals with backslash escapes and doubled quotes, `...` identifiers, # comments; np counts the '?' met in "
    "statement text): by an inductive loop invariant over the byte position (any statement length) the reported count equals np, the k-th "
    "reported offset is the position of the k-th grammar marker, and an error is reported only for an unterminated literal. The invariant "
    "is proved for every statement without backslash, backtick and '#' (residual obligations of the recorded finding: for all other "
    "statements CalcParams is known to diverge from the grammar -- backslash escapes, quoted identifiers, comments).",
    "The oracle is a hand-written spec lexer (definitional axioms lexStart / lexStep), not the yacc grammar; `--` and /* */ comments are not "
    "in the spec (two-byte look-ahead); string(byte) is modelled as an injective function with one-byte results for ASCII; the sqlItems "
    "pieces returned alongside are not specified.",
    "DESIGN.md section 4, C14")

CLAIMS["C15"] = (
    "escapeSQL against the literal encodings of MySQL's two lexical modes, for every value (any bytes, any length below 2^30): by an "
    "inductive loop invariant, the result consists of the value's bytes in order, each backslash and quote preceded by exactly one backslash "
    "(length = len + number of such bytes; byte j at j + ne(j) after its escape) -- the default-mode literal that denotes exactly the value "
    "and whose first unescaped quote is the closing one. The same statement for NO_BACKSLASH_ESCAPES (quotes doubled, backslashes "
    "verbatim) is proved only for values without quote and backslash: for all others it fails on the pinned tree (recorded finding: the "
    "session's sql_mode is never consulted). util.ItoString: NULL unquoted for a NULL parameter; string / blob / temporal / decimal "
    "parameters (all bound as []byte) keep their bytes and are quoted; numbers are not quoted.",
    "Trusted: fmt's %v renders a number as its decimal text (numeric fidelity is not proved); the counting functions ne / nq are given by "
    "definitional axioms plus their monotonicity consequences (induction done by hand). NOT under contract: Stmt.GetRewriteSQL (bytes.Buffer "
    "concatenation of the pieces with the literals; the pairing of placeholder k with argument k is read, not proved), bindStmtArgs' "
    "decoding of the binary values (C12/C16 cover the readers and the reset), multi-byte connection charsets (GBK-style escapes).",
    "DESIGN.md section 4, C15")

CLAIMS["C03"] = (
    "handleInsertValues (the batch split per target table) for every VALUES list of any length: by inductive loop invariants with ghost "
    "witnesses (slot[idx] = ordinal of the statement built for table idx, rowPos[j] = position of row j in its statement, prevRow / lastRow "
    "= the chain of rows of one table) the function returns without error only if EVERY row's sharding value is a literal, not NULL and "
    "routable; then statement m is paired with table indexes[m], the tables are pairwise distinct, row j is stored at position rowPos[j] of "
    "the statement paired with place(value of row j) -- the same place() the point-query routing of C01 uses --, two rows of one table sit "
    "at different positions, and every statement's rows are exactly the chain 0..len-1 of input rows of its table (no row twice, no foreign "
    "row). INSERT ... SET: one statement, routed to exactly the table of a literal value; a non-literal value leaves the route untouched "
    "(so the statement is only accepted by generateMultiShardingSQLs when the table has a single sub-table). A non-literal sharding value in "
    "a batch was silently dropped on the pinned tree: repaired by fix commit a4cf690 (replay kept). generateMultiShardingSQLs renders "
    "statement m exactly once, while the route cursor stands at m (call-site obligation on Restore; GetCurrentTableIndex -- what the "
    "table-name decorator writes -- returns indexes[cursor]), files it under the slice and database the rule names for indexes[m], and "
    "rejects a statement list that does not pair up with the route.",
    "The surjectivity half ('every position of every statement is some input row') is carried by the prevRow/lastRow chain and closed by a "
    "two-line induction that is not mechanised. Listed assumptions: every row has at least shardingColumnIndex+1 values (precheckInsertStmt "
    "only checks the first row), p.rewriteStmts is empty on entry (NewInsertPlan). NOT under contract: the decorators' Restore methods themselves "
    "(AST rendering), handleInsertGlobalSequenceValue, the global-table branch (generateGlobalShardingSQLs delegates to "
    "generateShardingSQLs, under contract in C04).",
    "DESIGN.md section 4, C03")

NA = {
 "C02": "not applicable to contract-based verification here: the oracle is the result of executing SQL on data (what one MySQL holding all shards would return); no contract within reach expresses an SQL execution semantics, and the rewriter is ~3k lines of visitors over TiDB AST types (DESIGN.md section 5)",
 "C06": "not applicable: the property compares a token pre-check with the decision of the yacc-generated parser; the specification is that parser (tables + hand-written lexer), which is outside the verifier's subset (DESIGN.md section 5)",
 "C17": "not applicable: SplitStatementToPieces is a thin loop over the parser's Scanner; the property is the scanner's tokenisation of strings and comments against the SQL grammar, an artefact no contract here can state (DESIGN.md section 5)",
 "C20": "not applicable: quantifies over interleavings of several clients on pooled connections against a MySQL server's session-variable semantics; neither the backend model nor the interleaving is expressible per function (DESIGN.md section 5)",
 "C22": "not applicable: the decision is made on strings-tokenised text against the grammar's notion of locking reads and comments; the oracle is the grammar (DESIGN.md section 5)",
 "C24": "not applicable: explicitly about interleavings at atomic-step granularity; sequential contracts are silent on schedules and the verifier models no concurrency (DESIGN.md section 5)",
 "C32": "not applicable: two-phase exchange implemented with goroutines, WaitGroup and channels across processes; outside the sequential subset of the verifier (DESIGN.md section 5)",
 "C36": "not applicable: 700-line fingerprint lexer against 'differs only in literals, spacing, case, comments' relative to the SQL grammar; metamorphic property whose oracle is the grammar (DESIGN.md section 5)",
 "C38": "not applicable: whole-process liveness / crash freedom that holds because of a recover far from the panicking decoders; per-function no-panic contracts would demand more than the property states (false alarms) and termination is not provable here (DESIGN.md section 5)",
}

TECH = "contract-based deductive verification: go/ssa weakest-precondition VCs discharged by z3/cvc5"

def main():
    checks = []
    for pid in PROPS:
        if pid not in CLAIMS:
            continue
        text, note, ref = CLAIMS[pid]
        checks.append({
            "property_id": pid,
            "quick_cmd": f"./check {pid} quick",
            "thorough_cmd": f"./check {pid} thorough",
            "evidence_file": f"/verif/evidence/{pid}.json",
            "replay_cmd_template": "cat {path}",
            "engine": "govc",
            "level_claimed": {"category": "proof", "text": text, "design_ref": ref},
            "level_note": note,
            "technique": TECH,
        })
    na = []
    for pid in PROPS:
        if pid in CLAIMS:
            continue
        na.append({"property_id": pid, "reason": NA.get(pid, "not reached yet: contracts for this property are not written/verified at this commit (see DESIGN.md section 4)")})
    try:
        commits = subprocess.check_output(["git", "-C", "/repo", "log", "--format=%H %s"], text=True).splitlines()
    except Exception:
        commits = []
    hook_commits = [c.split()[0] for c in commits if c.split(" ", 1)[1].startswith("verif:")]
    m = {
        "version": 1,
        "setup_cmd": "cd /verif/govc && GOFLAGS=-mod=vendor GOPROXY=off GOSUMDB=off GOTOOLCHAIN=local go build -o /verif/bin/govc .",
        "hooks": {
            "guard": "verif",
            "enable": "build tag `verif` (go build -tags verif): the only guarded files are <pkg>/zz_verif_contracts.go, comment-only contract files read by govc; no executable hook code",
            "baseline_off_cmd": "for m in $(cat /w/out/gomods.txt); do MF=$(cd /repo/$m && . /w/out/goenv.sh && gomodflag); (cd /repo/$m && go test $MF -json -vet=off -count=1 -timeout 25m ./...); done",
            "source_commits": hook_commits,
            "add_only": True,
        },
        "engines": [{"name": "govc", "path": "/verif/govc", "serves_properties": sorted(CLAIMS),
                     "kind_free_text": "home-made deductive verifier for Go: contracts in comment files, VCs from go/ssa (passive form, loop cutting with invariants, heap arrays, bv/int arithmetic modes), z3 4.8.12 / z3 5.1.0 / cvc5 1.0.3 back ends, counterexample replay on the real code via go test -overlay"}],
        "checks": checks,
        "not_applicable": na,
        "notes": "All checks are contract-based deductive verification of the real code (see DESIGN.md). Known findings: /verif/known_findings.json.",
    }
    json.dump(m, open("/verif/MANIFEST.json", "w"), indent=1)
    print("claimed:", sorted(CLAIMS), "n/a:", len(na))

if __name__ == "__main__":
    main()
