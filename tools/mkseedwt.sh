#!/bin/bash
# tools/mkseedwt.sh <name>: scratch worktree /tmp/seed_<name> of /repo HEAD without the contract files
# (so that a sub-agent working there sees nothing of the verification work); prints the property text file path.
set -eu
n=$1; wt=/tmp/seed_$n
git -C /repo worktree add -q --detach $wt HEAD
cd $wt
git rm -q $(git ls-files | grep zz_verif_contracts.go)
git -c user.name=scratch -c user.email=s@x commit -qm "scratch: contracts removed"
mkdir -p _seed
echo $wt
