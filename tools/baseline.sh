#!/bin/bash
# tools/baseline.sh: runs the repository's pinned test suite (guard off) and reports baseline tests that no longer pass
cd /repo
. /w/out/goenv.sh
export GOPROXY=off GOSUMDB=off
rm -f /tmp/baseline_run.json
for m in $(cat /w/out/gomods.txt); do MF=$(cd /repo/$m && gomodflag); (cd /repo/$m && go test $MF -json -vet=off -count=1 -timeout 25m ./... >> /tmp/baseline_run.json 2>/dev/null); done
python3 - <<'P'
import json
ok=set(); fail=set()
for l in open('/tmp/baseline_run.json'):
    try: e=json.loads(l)
    except: continue
    if e.get('Test'):
        k=e['Package']+'::'+e['Test']
        if e.get('Action')=='pass': ok.add(k)
        if e.get('Action')=='fail': fail.add(k)
b=json.load(open('/root/.vp/BASELINE.json'))
sp=set(b['stable_pass'])
print('baseline stable_pass',len(sp),'passing now',len(sp&ok),'missing',sorted(sp-ok)[:20])
P
