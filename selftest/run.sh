#!/bin/sh
# Must-fail corpus: every patch under selftest/mutants/<name>/patch.diff is applied to a scratch
# worktree of /repo (outside /repo and /verif, removed afterwards); the check for the property named in
# expect.txt (line 1: property id, line 2: substring of the obligation that must fail) must exit 1 and
# name that obligation. Usage: selftest/run.sh [name-filter]
set -u
V=/verif
export GOFLAGS=-mod=mod GOPROXY=off GOSUMDB=off GOTOOLCHAIN=local
# instantiated proofs (C26: one per window size) are capped at 3 instances here: a mutant must already fail on those
export GOVC_INST_MAX=3
WT=$(mktemp -d /tmp/govc-selftest.XXXXXX)
SV=$(mktemp -d /tmp/govc-selfverif.XXXXXX)
trap 'git -C /repo worktree remove --force "$WT" >/dev/null 2>&1; rm -rf "$WT" "$SV"' EXIT
git -C /repo worktree add --detach -f "$WT" HEAD >/dev/null 2>&1 || { echo "cannot create worktree"; exit 2; }
# carry uncommitted changes of /repo (contract files under development)
(cd /repo && git diff HEAD) | (cd "$WT" && git apply --allow-empty 2>/dev/null)
(cd /repo && git ls-files --others --exclude-standard | grep zz_verif_contracts.go) | while read f; do mkdir -p "$WT/$(dirname $f)"; cp "/repo/$f" "$WT/$f"; done
cp $V/known_findings.json "$SV/" 2>/dev/null
fail=0; n=0
for d in $V/selftest/mutants/*/; do
  name=$(basename "$d")
  case "$name" in *"${1:-}"*) ;; *) continue ;; esac
  prop=$(sed -n 1p "$d/expect.txt"); want=$(sed -n 2p "$d/expect.txt")
  (cd "$WT" && git apply "$d/patch.diff") || { echo "SELFTEST $name: patch does not apply"; fail=1; continue; }
  out=$("${GOVC:-$V/bin/govc}" check -prop "$prop" -tier quick -repo "$WT" -verif "$SV" -noreplay 2>&1); rc=$?
  (cd "$WT" && git apply -R "$d/patch.diff")
  n=$((n+1))
  if [ $rc -eq 1 ] && echo "$out" | grep "failed obligation" | grep -qF "$want"; then
    echo "SELFTEST $name: rejected as expected ($prop: $want)"
  else
    echo "SELFTEST $name: NOT rejected (rc=$rc, wanted $prop $want)"; echo "$out" | tail -5; fail=1
  fi
done
echo "selftest: $n mutants, fail=$fail"
exit $fail
